// nop2c — lower the *instantiated* C++ function bodies of one translation unit to C.
//
// A syntax-directed printer over clang's typed AST.  It takes no decisions of its own
// about overloads, conversions, template arguments or constant values: all of that is
// read off the AST the real compiler built from the real source.  Every AST node, type
// or declaration kind outside the handled set aborts with exit code 3 ("extraction
// break"), never a silent approximation.  See DESIGN.md §3.2 for the rule table and the
// exhaustive list of what the lowering drops.
//
// usage: nop2c unit.cpp --out=unit.c --map=unit.map.json -- <clang flags>
//
// Entry functions = every non-dependent function *defined in the main file* (including
// explicit/implicit instantiations of templates defined there).  Everything they reach
// is lowered too.  Declared-but-undefined functions become prototypes ("external").
#include "clang/AST/ASTConsumer.h"
#include "clang/AST/Mangle.h"
#include "clang/AST/RecordLayout.h"
#include "clang/AST/RecursiveASTVisitor.h"
#include "clang/AST/StmtVisitor.h"
#include "clang/Frontend/CompilerInstance.h"
#include "clang/Frontend/FrontendAction.h"
#include "clang/Tooling/CommonOptionsParser.h"
#include "clang/Tooling/Tooling.h"
#include "llvm/Support/CommandLine.h"
#include "llvm/Support/FileSystem.h"
#include <deque>
#include <map>
#include <set>
#include <sstream>
using namespace clang;

static llvm::cl::OptionCategory Cat("nop2c");
static llvm::cl::opt<std::string> OutFile("out", llvm::cl::desc("output C file"), llvm::cl::cat(Cat), llvm::cl::init("-"));
static llvm::cl::opt<std::string> MapFile("map", llvm::cl::desc("output name map (JSON)"), llvm::cl::cat(Cat), llvm::cl::init(""));
// --hoist=name: locals of that name declared inside a loop body are declared at the top of the function instead (same
// name, initialised where the declaration statement stood).  Needed for loop contracts: a loop-body local that is written
// through a pointer on a path that LEAVES the loop (e.g. moved from in `return status;`) is outside CBMC's natural loop
// and is checked against the function's write set, which only knows function-level locals.
static llvm::cl::list<std::string> HoistNames("hoist", llvm::cl::desc("hoist loop-body locals of this name to function scope"), llvm::cl::cat(Cat));
static llvm::cl::opt<bool> LineDirectives("line-directives", llvm::cl::desc("emit #line directives pointing at the C++ source"), llvm::cl::cat(Cat), llvm::cl::init(false));
static llvm::cl::list<std::string> ExtraEntries("entry", llvm::cl::desc("additional entry functions by qualified-name prefix"), llvm::cl::cat(Cat));

static ASTContext* gC = nullptr;
static std::vector<std::string> gCensus;
[[noreturn]] static void die(const std::string& m, const Stmt* s = nullptr) {
  llvm::errs() << "nop2c: UNSUPPORTED: " << m << "\n";
  if (s && gC) {
    s->getBeginLoc().print(llvm::errs(), gC->getSourceManager());
    llvm::errs() << "\n";
    s->dump();
  }
  exit(3);
}
[[noreturn]] static void dieD(const std::string& m, const Decl* d) {
  llvm::errs() << "nop2c: UNSUPPORTED: " << m << "\n";
  if (d && gC) {
    d->getLocation().print(llvm::errs(), gC->getSourceManager());
    llvm::errs() << "\n";
  }
  exit(3);
}

static std::string jsonEsc(const std::string& s) {
  std::string r;
  for (char c : s) {
    if (c == '"' || c == '\\') { r += '\\'; r += c; }
    else if (c == '\n') r += "\\n";
    else if ((unsigned char)c < 0x20) { char b[8]; snprintf(b, sizeof b, "\\u%04x", c); r += b; }
    else r += c;
  }
  return r;
}

struct Lower {
  ASTContext& C;
  std::unique_ptr<MangleContext> MC;
  PrintingPolicy PP;
  std::map<const RecordDecl*, std::string> recNames;
  std::set<const RecordDecl*> recDone, recInProgress;
  std::map<const FunctionDecl*, std::string> fnNames;
  std::deque<const FunctionDecl*> work;
  std::set<const FunctionDecl*> fnQueued;
  std::string typeDefs, protos, bodies, globals;
  std::map<const VarDecl*, std::string> globalNames;
  std::vector<std::string> mapFns, mapRecs, mapGlobals;
  int tmpCounter = 0;

  Lower(ASTContext& c) : C(c), MC(ItaniumMangleContext::create(c, c.getDiagnostics())), PP(c.getLangOpts()) {
    PP.SuppressTagKeyword = 1;
    PP.Bool = 1;
    PP.FullyQualifiedName = 1;
    PP.SuppressUnwrittenScope = 0;
    PP.AnonymousTagLocations = 0;
  }

  static std::string sanitize(std::string s) {
    for (char& ch : s) if (!isalnum((unsigned char)ch) && ch != '_') ch = '_';
    return s;
  }
  std::string mangleType(QualType T) {
    std::string s;
    llvm::raw_string_ostream os(s);
    MC->mangleTypeName(T, os);
    os.flush();
    return sanitize(s);
  }
  std::string loc(SourceLocation L) {
    auto& SM = C.getSourceManager();
    PresumedLoc P = SM.getPresumedLoc(SM.getExpansionLoc(L));
    if (P.isInvalid()) return "?";
    return std::string(P.getFilename()) + ":" + std::to_string(P.getLine());
  }

  // ------------------------------------------------------------------ intercepted std
  // (none yet: growable std containers are outside INST until a model is added)

  // ------------------------------------------------------------------ records
  std::string recName(const RecordDecl* RD) {
    if (RD->getDefinition()) RD = RD->getDefinition();
    auto it = recNames.find(RD);
    if (it != recNames.end()) return it->second;
    std::string n = (RD->isUnion() ? "union U" : "struct S") + mangleType(C.getRecordType(RD));
    recNames[RD] = n;
    return n;
  }

  void needRecord(const RecordDecl* RD) {
    const RecordDecl* Def = RD->getDefinition();
    if (!Def) dieD("incomplete record " + RD->getQualifiedNameAsString(), RD);
    RD = Def;
    if (recDone.count(RD) || recInProgress.count(RD)) return;
    recInProgress.insert(RD);
    std::string body;
    if (auto* CX = dyn_cast<CXXRecordDecl>(RD)) {
      if (CX->isDynamicClass()) dieD("dynamic class " + CX->getQualifiedNameAsString(), CX);
      int bi = 0;
      for (auto& B : CX->bases()) {
        const RecordDecl* BD = B.getType()->getAsRecordDecl();
        needRecord(BD);
        body += "  " + recName(BD) + " __b" + std::to_string(bi++) + ";\n";
      }
    }
    int anon = 0;
    for (auto* F : RD->fields()) {
      std::string fname = F->getName().str();
      if (fname.empty()) fname = "__anon" + std::to_string(anon++);
      if (F->isBitField()) dieD("bit-field", F);
      body += "  " + declare(F->getType(), fname, true) + ";\n";
    }
    if (body.empty()) body = "  char __empty;\n";
    typeDefs += "/* " + C.getRecordType(RD).getAsString(PP) + " */\n" + recName(RD) + " {\n" + body + "};\n";
    mapRecs.push_back("{\"cxx\":\"" + jsonEsc(C.getRecordType(RD).getAsString(PP)) + "\",\"c\":\"" + recName(RD) + "\"}");
    recInProgress.erase(RD);
    recDone.insert(RD);
  }

  std::string fieldName(const FieldDecl* F) {
    if (!F->getName().empty()) return F->getName().str();
    int anon = 0;
    for (auto* G : F->getParent()->fields()) {
      if (G == F) return "__anon" + std::to_string(anon);
      if (G->getName().empty()) anon++;
    }
    dieD("field", F);
  }

  // C declarator for a variable `name` of C++ type T.
  std::string declare(QualType T, const std::string& name, bool byValue = true) {
    T = T.getCanonicalType();
    if (auto* RT = T->getAs<ReferenceType>()) return declare(C.getPointerType(RT->getPointeeType()), name, byValue);
    if (auto* MPT = T->getAs<MemberPointerType>()) {
      // pointer to (non-virtual) member function: a C pointer to the lowered method, `this` first
      auto* FT = MPT->getPointeeType()->getAs<FunctionProtoType>();
      if (!FT) die("pointer to data member as run-time value: " + T.getAsString());
      std::string params = declare(C.getPointerType(QualType(MPT->getClass(), 0)), "", false);
      for (QualType A : FT->param_types()) params += ", " + declare(A, "", true);
      return declare(FT->getReturnType(), "(*" + name + ")(" + params + ")", true);
    }
    if (auto* PT = T->getAs<PointerType>()) {
      QualType P = PT->getPointeeType();
      if (auto* FT = P->getAs<FunctionProtoType>()) {
        std::string params;
        for (QualType A : FT->param_types()) params += (params.empty() ? "" : ", ") + declare(A, "", true);
        if (params.empty()) params = "void";
        QualType R = FT->getReturnType();
        return declare(R, "(*" + name + ")(" + params + ")", true);
      }
      if (auto* AT = C.getAsConstantArrayType(P))
        return declare(AT->getElementType(), "(*" + name + ")[" + std::to_string(AT->getSize().getZExtValue()) + "]", false);
      return declare(P, "*" + name, false);
    }
    if (auto* AT = C.getAsConstantArrayType(T))
      return declare(AT->getElementType(), name + "[" + std::to_string(AT->getSize().getZExtValue()) + "]", byValue);
    return typeName(T, byValue) + (name.empty() ? "" : " " + name);
  }

  std::string typeName(QualType T, bool byValue = true) {
    T = T.getCanonicalType();
    if (auto* BT = T->getAs<BuiltinType>()) {
      switch (BT->getKind()) {
        case BuiltinType::Void: return "void";
        case BuiltinType::Bool: return "_Bool";
        case BuiltinType::Char_S: case BuiltinType::Char_U: return "char";
        case BuiltinType::SChar: return "signed char";
        case BuiltinType::UChar: return "unsigned char";
        case BuiltinType::Short: return "short";
        case BuiltinType::UShort: return "unsigned short";
        case BuiltinType::Int: return "int";
        case BuiltinType::UInt: return "unsigned int";
        case BuiltinType::Long: return "long";
        case BuiltinType::ULong: return "unsigned long";
        case BuiltinType::LongLong: return "long long";
        case BuiltinType::ULongLong: return "unsigned long long";
        case BuiltinType::Float: return "float";
        case BuiltinType::Double: return "double";
        case BuiltinType::WChar_S: return "int";
        case BuiltinType::WChar_U: return "unsigned int";
        case BuiltinType::Char16: return "unsigned short";
        case BuiltinType::Char32: return "unsigned int";
        case BuiltinType::NullPtr: return "void*";
        default: die("builtin type " + T.getAsString());
      }
    }
    if (auto* ET = T->getAs<EnumType>()) return typeName(ET->getDecl()->getIntegerType(), byValue);
    if (auto* RT = T->getAs<RecordType>()) {
      if (byValue) needRecord(RT->getDecl());
      return recName(RT->getDecl());
    }
    if (T->isPointerType() || T->isReferenceType() || T->isArrayType()) return declare(T, "", byValue);
    die("type " + T.getAsString());
  }

  // ------------------------------------------------------------------ functions
  std::string fnName(const FunctionDecl* F) {
    F = F->getCanonicalDecl();
    auto it = fnNames.find(F);
    if (it != fnNames.end()) return it->second;
    std::string s;
    llvm::raw_string_ostream os(s);
    if (F->isExternC() && !isa<CXXMethodDecl>(F)) return fnNames[F] = F->getName().str();
    if (auto* CD = dyn_cast<CXXConstructorDecl>(F)) MC->mangleName(GlobalDecl(CD, Ctor_Complete), os);
    else if (auto* DD = dyn_cast<CXXDestructorDecl>(F)) MC->mangleName(GlobalDecl(DD, Dtor_Complete), os);
    else MC->mangleName(GlobalDecl(F), os);
    os.flush();
    return fnNames[F] = sanitize(s);
  }

  std::string cxxKey(const FunctionDecl* F) {
    std::string s;
    llvm::raw_string_ostream os(s);
    F->getNameForDiagnostic(os, PP, true);
    os << "(";
    bool first = true;
    for (auto* P : F->parameters()) {
      if (!first) os << ", ";
      first = false;
      os << P->getType().getCanonicalType().getAsString(PP);
    }
    os << ")";
    if (auto* M = dyn_cast<CXXMethodDecl>(F)) if (M->isConst()) os << " const";
    os.flush();
    return s;
  }

  const FunctionDecl* withBody(const FunctionDecl* F) {
    const FunctionDecl* D = nullptr;
    if (F->hasBody(D)) return D;
    return nullptr;
  }

  void need(const FunctionDecl* F) {
    if (fnQueued.insert(F->getCanonicalDecl()).second) work.push_back(F);
  }

  bool nonTrivialDtor(QualType T) {
    T = T.getCanonicalType();
    while (auto* AT = C.getAsConstantArrayType(T)) T = AT->getElementType();
    if (auto* RD = T->getAsCXXRecordDecl()) {
      if (!RD->hasDefinition() || RD->hasTrivialDestructor()) return false;
      // a union's variant members are never destroyed implicitly; an (anonymous) union whose
      // destructor is deleted or implicit contributes nothing to its enclosing destructor
      if (RD->isUnion()) {
        const CXXDestructorDecl* DD = RD->getDestructor();
        return DD && DD->isUserProvided();
      }
      return true;
    }
    return false;
  }
  // destructor call statement for object expression `obj` (an lvalue) of type T
  std::string dtorCall(QualType T, const std::string& obj) {
    T = T.getCanonicalType();
    if (C.getAsConstantArrayType(T)) die("array of objects with non-trivial destructor");
    auto* RD = T->getAsCXXRecordDecl();
    const CXXDestructorDecl* DD = RD->getDestructor();
    if (!DD) die("no destructor decl for " + T.getAsString());
    need(DD);
    return fnName(DD) + "(&" + obj + ");";
  }

  // ------------------------------------------------------------------ expressions
  struct Cleanup { std::string code; };
  struct Ctx {
    std::string pre;                  // hoisted declarations of temporaries for the current statement
    std::vector<std::string> post;    // destructor calls of temporaries, in construction order
    int condDepth = 0;
  };

  std::string newTmp(Ctx& cx, QualType T) {
    std::string n = "__t" + std::to_string(tmpCounter++);
    cx.pre += "  " + declare(T.getNonReferenceType().getUnqualifiedType(), n) + ";\n";
    return n;
  }

  // Registers the destructor of temporary `t` to run at the end of the full-expression.  Inside a
  // conditionally evaluated operand (&&, ||, ?:) a flag records whether it was constructed.
  std::string registerTemp(Ctx& cx, QualType T, const std::string& t) {
    if (!cx.condDepth) {
      cx.post.push_back(dtorCall(T, t));
      return "";
    }
    std::string f = "__f" + std::to_string(tmpCounter++);
    cx.pre += "  _Bool " + f + " = 0;\n";
    cx.post.push_back("if (" + f + ") { " + dtorCall(T, t) + " }");
    return f + " = 1, ";
  }

  std::map<const VarDecl*, std::string> localNames;
  std::set<std::string> usedLocalNames;
  std::string localName(const VarDecl* VD) {
    auto it = localNames.find(VD);
    if (it != localNames.end()) return it->second;
    std::string n;
    if (!VD->getName().empty()) {
      n = VD->getName().str();
      // expanded parameter packs give several parameters the same name: disambiguate by index
      if (auto* P = dyn_cast<ParmVarDecl>(VD))
        if (auto* FD = dyn_cast_or_null<FunctionDecl>(P->getDeclContext())) {
          int same = 0;
          for (auto* Q : FD->parameters()) if (Q->getName() == P->getName()) same++;
          if (same > 1) n += "__" + std::to_string(P->getFunctionScopeIndex());
        }
    } else if (auto* P = dyn_cast<ParmVarDecl>(VD)) n = "__p" + std::to_string(P->getFunctionScopeIndex());
    else n = "__u" + std::to_string(tmpCounter++);
    // C has no shadowing problem for nested blocks, but a local must not collide with
    // `this`; names are otherwise kept as in the source so contracts can mention them.
    return localNames[VD] = n;
  }

  static bool staticDefaultCtor(const Expr* I) {
    auto* CE = dyn_cast<CXXConstructExpr>(I->IgnoreImplicit());
    return CE && CE->getConstructor()->isDefaultConstructor() && (CE->getConstructor()->isTrivial() || CE->getConstructor()->isConstexpr());
  }
  std::string globalVar(const VarDecl* VD) {
    VD = VD->getCanonicalDecl();
    auto it = globalNames.find(VD);
    if (it != globalNames.end()) return it->second;
    std::string s;
    llvm::raw_string_ostream os(s);
    if (VD->isExternC()) os << VD->getName();
    else MC->mangleName(GlobalDecl(VD), os);
    os.flush();
    std::string n = sanitize(s);
    globalNames[VD] = n;
    const VarDecl* Def = VD->getDefinition();
    QualType T = VD->getType();
    bool tls = VD->getTLSKind() != VarDecl::TLS_None;
    std::string decl = std::string(tls ? "__CPROVER_thread_local " : "") + declare(T.getUnqualifiedType(), n);
    std::string init;
    if (Def && Def->hasInit()) {
      const Expr* I = Def->getInit();
      Expr::EvalResult R;
      if (T->isIntegralOrEnumerationType() && I->EvaluateAsInt(R, C)) init = " = " + lit(R.Val.getInt(), T);
      else if (const APValue* AV = (T->isRecordType() || T->isArrayType()) ? Def->evaluateValue() : nullptr) {
        // constant-initialised object (e.g. ThreadLocal's static thread_local Optional<T>, whose
        // default constructor is constexpr): print the value the compiler computed
        init = " = " + apvalueInit(*AV, T);
      }
      else if (VD->isStaticLocal() && !staticDefaultCtor(I) && !(T->isPointerType() || T->isArithmeticType())) {
        // function-local static with a dynamic initialiser: zero-initialised global + guard; the initialiser runs at
        // the declaration statement the first time control passes through it (varDecl); recorded in the census
        dynamicInit.insert(VD);
        globals += "_Bool " + n + "__guard;\n";
        init = "";
      }
      else if (auto* CE = dyn_cast<CXXConstructExpr>(I->IgnoreImplicit())) {
        if (!(CE->getConstructor()->isDefaultConstructor())) dieD("global with non-default constructor " + VD->getQualifiedNameAsString(), VD);
        // static storage: zero-initialised, then default-constructed; for the types libnop
        // defines at static storage (Optional<T> in ThreadLocal) the default constructor
        // yields the all-zero "empty" state except for the flag, handled by the census.
        if (!CE->getConstructor()->isTrivial() && !CE->getConstructor()->isConstexpr())
          dieD("global with non-constexpr constructor " + VD->getQualifiedNameAsString(), VD);
        init = "";
        pendingGlobalCtors.push_back({VD, CE});
      } else if (T->isPointerType() || T->isArithmeticType()) {
        Ctx cx;
        init = " = " + ex(I, cx);
        if (!cx.pre.empty()) dieD("global initialiser needs temporaries", VD);
      } else dieD("global initialiser " + VD->getQualifiedNameAsString(), VD);
    }
    globals += decl + init + ";\n";
    mapGlobals.push_back("{\"cxx\":\"" + jsonEsc(VD->getQualifiedNameAsString()) + "\",\"c\":\"" + n + "\",\"type\":\"" + jsonEsc(T.getAsString(PP)) +
                         "\",\"thread_local\":" + (tls ? "true" : "false") + ",\"static_local\":" + (VD->isStaticLocal() ? "true" : "false") +
                         ",\"const\":" + (T.isConstQualified() ? "true" : "false") + ",\"dynamic_init\":" + (dynamicInit.count(VD) ? "true" : "false") +
                         ",\"loc\":\"" + jsonEsc(loc(VD->getLocation())) + "\"}");
    return n;
  }
  std::set<const VarDecl*> dynamicInit;
  std::string apvalueInit(const APValue& V, QualType T) {
    T = T.getCanonicalType();
    switch (V.getKind()) {
      case APValue::Int: return lit(V.getInt(), T);
      case APValue::Indeterminate: case APValue::None: return "0";
      case APValue::Struct: {
        const RecordDecl* RD = T->getAsRecordDecl();
        needRecord(RD);
        std::string s = "{";
        bool any = false;
        if (auto* CX = dyn_cast<CXXRecordDecl>(RD)) {
          unsigned bi = 0;
          for (auto& B : CX->bases()) {
            s += std::string(any ? ", " : "") + ".__b" + std::to_string(bi) + " = " + apvalueInit(V.getStructBase(bi), B.getType());
            bi++;
            any = true;
          }
        }
        unsigned fi = 0;
        for (auto* F : RD->fields()) {
          s += std::string(any ? ", " : "") + "." + fieldName(F) + " = " + apvalueInit(V.getStructField(fi), F->getType());
          fi++;
          any = true;
        }
        if (!any) s += "0";
        return s + "}";
      }
      case APValue::Union: {
        const FieldDecl* F = V.getUnionField();
        needRecord(T->getAsRecordDecl());
        if (!F) return "{0}";
        return "{." + fieldName(F) + " = " + apvalueInit(V.getUnionValue(), F->getType()) + "}";
      }
      case APValue::Array: {
        auto* AT = C.getAsConstantArrayType(T);
        std::string s = "{";
        unsigned n = V.getArraySize(), ni = V.getArrayInitializedElts();
        for (unsigned i = 0; i < n; i++)
          s += std::string(i ? ", " : "") + apvalueInit(i < ni ? V.getArrayInitializedElt(i) : V.getArrayFiller(), AT->getElementType());
        return s + "}";
      }
      default: die("constant initialiser kind in global");
    }
  }
  struct PendingCtor { const VarDecl* VD; const CXXConstructExpr* CE; };
  std::vector<PendingCtor> pendingGlobalCtors;

  std::string lit(const llvm::APSInt& v, QualType T) {
    llvm::SmallString<32> s;
    v.toString(s, 10);
    std::string r = s.str().str();
    if (v.isUnsigned()) r += "ULL";
    else if (v.isMinSignedValue() && v.getBitWidth() == 64) return "((" + typeName(T) + ")(-9223372036854775807LL - 1))";
    else r += "LL";
    return "((" + typeName(T) + ")" + r + ")";
  }
  std::string lit(const llvm::APInt& v, QualType T) { return lit(llvm::APSInt(v, T->isUnsignedIntegerOrEnumerationType()), T); }

  std::string strLit(const StringLiteral* SL) {
    if (SL->getCharByteWidth() != 1) die("wide string literal", SL);
    std::string r = "\"";
    for (unsigned char c : SL->getBytes()) {
      char b[8];
      if (c == '"' || c == '\\') { r += '\\'; r += (char)c; }
      else if (c >= 0x20 && c < 0x7f) r += (char)c;
      else { snprintf(b, sizeof b, "\\%03o", c); r += b; }
    }
    return r + "\"";
  }

  const Expr* skipTemps(const Expr* E) {
    // Peel wrappers that only give a prvalue an identity; used where the prvalue initialises
    // an object directly (guaranteed or permitted elision), so no temporary exists at all.
    for (;;) {
      E = E->IgnoreParens();
      if (auto* X = dyn_cast<ExprWithCleanups>(E)) { E = X->getSubExpr(); continue; }
      if (auto* X = dyn_cast<MaterializeTemporaryExpr>(E)) { E = X->getSubExpr(); continue; }
      if (auto* X = dyn_cast<CXXBindTemporaryExpr>(E)) { E = X->getSubExpr(); continue; }
      if (auto* X = dyn_cast<ImplicitCastExpr>(E)) if (X->getCastKind() == CK_NoOp || X->getCastKind() == CK_ConstructorConversion) { E = X->getSubExpr(); continue; }
      if (auto* X = dyn_cast<CXXFunctionalCastExpr>(E)) if (X->getCastKind() == CK_NoOp || X->getCastKind() == CK_ConstructorConversion) { E = X->getSubExpr(); continue; }
      if (auto* X = dyn_cast<CXXConstructExpr>(E))
        if (X->getConstructor()->isCopyOrMoveConstructor() && X->isElidable() && X->getNumArgs() >= 1) { E = X->getArg(0); continue; }
      return E;
    }
  }

  // Initialise the object designated by C lvalue `obj` (type T) from initialiser I, as a C
  // expression statement list (returned as an expression using the comma operator).
  std::string initInto(const std::string& obj, QualType T, const Expr* I, Ctx& cx) {
    const Expr* S = skipTemps(I);
    if (auto* AT0 = C.getAsConstantArrayType(T))
      if (isa<CXXConstructExpr>(S)) {
        // array of class objects constructed element by element with the same constructor call
        uint64_t n = AT0->getSize().getZExtValue();
        if (n > 64) die("large array of class objects", I);
        std::string s = "(";
        for (uint64_t i = 0; i < n; i++) s += std::string(i ? ", " : "") + initInto(obj + "[" + std::to_string(i) + "]", AT0->getElementType(), S, cx);
        if (n == 0) s += "(void)0";
        return s + ")";
      }
    if (auto* CE = dyn_cast<CXXConstructExpr>(S)) {
      const CXXConstructorDecl* CD = CE->getConstructor();
      if (CD->isTrivial()) {
        if (CE->getNumArgs() == 0) return CE->requiresZeroInitialization() ? "(" + obj + " = (" + typeName(T.getUnqualifiedType()) + "){0})" : "((void)0)";
        return "(" + obj + " = " + ex(CE->getArg(0), cx) + ")";
      }
      need(CD);
      std::string z = CE->requiresZeroInitialization() ? "memset(&" + obj + ", 0, sizeof(" + obj + ")), " : "";
      return "(" + z + fnName(CD) + "(" + joinArgs("&" + obj, CD, CE->arguments(), cx) + "))";
    }
    if (auto* IL = dyn_cast<InitListExpr>(S)) {
      if (T->isRecordType() || T->isArrayType()) return initListInto(obj, T, IL, cx);
      if (IL->getNumInits() == 0) return "(" + obj + " = 0)";
      return initInto(obj, T, IL->getInit(0), cx);
    }
    if (isa<ImplicitValueInitExpr>(S) || isa<CXXScalarValueInitExpr>(S)) {
      if (T->isRecordType() || T->isArrayType()) return "memset(&" + obj + ", 0, sizeof(" + obj + "))";
      return "(" + obj + " = 0)";
    }
    if (T->isArrayType()) {
      if (auto* SL = dyn_cast<StringLiteral>(S)) return "memcpy(" + obj + ", " + strLit(SL) + ", " + std::to_string(SL->getByteLength() + 1) + ")";
      die("array initialiser", I);
    }
    if (T->isReferenceType()) return "(" + obj + " = &" + ex(I, cx) + ")";
    return "(" + obj + " = " + ex(S, cx) + ")";
  }

  std::string initListInto(const std::string& obj, QualType T, const InitListExpr* IL, Ctx& cx) {
    if (IL->isSemanticForm() == false && IL->getSemanticForm()) IL = IL->getSemanticForm();
    std::string s = "(";
    auto add = [&](const std::string& e) { s += (s.size() > 1 ? ", " : "") + e; };
    if (auto* AT = C.getAsConstantArrayType(T)) {
      uint64_t n = AT->getSize().getZExtValue();
      QualType ET = AT->getElementType();
      for (uint64_t i = 0; i < n; i++) {
        std::string el = obj + "[" + std::to_string(i) + "]";
        if (i < IL->getNumInits()) add(initInto(el, ET, IL->getInit(i), cx));
        else if (IL->hasArrayFiller()) add(initInto(el, ET, IL->getArrayFiller(), cx));
        else die("array init without filler", IL);
      }
      if (n == 0) add("(void)0");
      return s + ")";
    }
    const RecordDecl* RD = T->getAsRecordDecl();
    needRecord(RD);
    if (RD->isUnion()) {
      if (auto* F = IL->getInitializedFieldInUnion()) {
        if (IL->getNumInits() >= 1) add(initInto(obj + "." + fieldName(F), F->getType(), IL->getInit(0), cx));
        else add("(void)0");
      } else add("(void)0");
      return s + ")";
    }
    unsigned i = 0;
    if (auto* CX = dyn_cast<CXXRecordDecl>(RD)) {
      int bi = 0;
      for (auto& B : CX->bases()) {
        if (i >= IL->getNumInits()) break;
        add(initInto(obj + ".__b" + std::to_string(bi++), B.getType(), IL->getInit(i++), cx));
      }
    }
    for (auto* F : RD->fields()) {
      if (F->isUnnamedBitfield()) continue;
      if (i >= IL->getNumInits()) break;
      add(initInto(obj + "." + fieldName(F), F->getType(), IL->getInit(i++), cx));
    }
    if (s.size() == 1) add("(void)0");
    return s + ")";
  }

  const FieldDecl* constMemberPointer(const Expr* R) {
    R = R->IgnoreParenImpCasts();
    if (auto* SN = dyn_cast<SubstNonTypeTemplateParmExpr>(R)) R = SN->getReplacement()->IgnoreParenImpCasts();
    if (auto* CE = dyn_cast<ConstantExpr>(R)) R = CE->getSubExpr()->IgnoreParenImpCasts();
    auto* UO = dyn_cast<UnaryOperator>(R);
    if (UO && UO->getOpcode() == UO_AddrOf)
      if (auto* DR = dyn_cast<DeclRefExpr>(UO->getSubExpr())) return dyn_cast<FieldDecl>(DR->getDecl());
    if (auto* DR = dyn_cast<DeclRefExpr>(R)) {
      if (auto* VD = dyn_cast<VarDecl>(DR->getDecl())) if (VD->hasInit()) return constMemberPointer(VD->getInit());
    }
    return nullptr;
  }

  std::string basePath(const CastExpr* CE, QualType from) {
    std::string path;
    QualType cur = from;
    for (auto* B : CE->path()) {
      const CXXRecordDecl* D = cur->getAsCXXRecordDecl()->getDefinition();
      int bi = 0, found = -1;
      for (auto& BB : D->bases()) { if (C.hasSameUnqualifiedType(BB.getType(), B->getType())) found = bi; bi++; }
      if (found < 0) die("base path", CE);
      needRecord(D);
      path += ".__b" + std::to_string(found);
      cur = B->getType();
    }
    return path;
  }

  std::string ex(const Expr* E, Ctx& cx) {
    E = E->IgnoreParens();
    if (auto* CE = dyn_cast<ConstantExpr>(E)) return ex(CE->getSubExpr(), cx);
    if (auto* IL = dyn_cast<IntegerLiteral>(E)) return lit(IL->getValue(), IL->getType());
    if (auto* CL = dyn_cast<CharacterLiteral>(E)) return lit(llvm::APInt(C.getTypeSize(CL->getType()), CL->getValue()), CL->getType());
    if (auto* FL = dyn_cast<FloatingLiteral>(E)) {
      llvm::SmallString<40> s;
      FL->getValue().toString(s, 0, 0, false);
      std::string r = s.str().str();
      if (r.find_first_of(".eEn") == std::string::npos) r += ".0";
      return "((" + typeName(FL->getType()) + ")" + r + ")";
    }
    if (auto* BL = dyn_cast<CXXBoolLiteralExpr>(E)) return BL->getValue() ? "((_Bool)1)" : "((_Bool)0)";
    if (isa<CXXNullPtrLiteralExpr>(E) || isa<GNUNullExpr>(E)) return "((void*)0)";
    if (auto* SL = dyn_cast<StringLiteral>(E)) return strLit(SL);
    if (isa<UnaryExprOrTypeTraitExpr>(E) || isa<TypeTraitExpr>(E) || isa<CXXNoexceptExpr>(E)) {
      Expr::EvalResult R;
      if (E->EvaluateAsInt(R, C)) return lit(R.Val.getInt(), E->getType());
      die("unevaluable trait/sizeof", E);
    }
    if (auto* DR = dyn_cast<DeclRefExpr>(E)) {
      const ValueDecl* D = DR->getDecl();
      if (auto* EC = dyn_cast<EnumConstantDecl>(D)) return lit(EC->getInitVal(), E->getType());
      if (auto* FD = dyn_cast<FunctionDecl>(D)) {
        if (auto* MD = dyn_cast<CXXMethodDecl>(FD)) if (MD->isVirtual()) die("pointer to virtual member function", E);
        need(FD);
        return fnName(FD);
      }
      if (auto* VD = dyn_cast<VarDecl>(D)) {
        if (!VD->isLocalVarDeclOrParm() || VD->isStaticLocal()) {
          Expr::EvalResult R;
          if (!wantLvalue && VD->getType().isConstQualified() && VD->getType()->isIntegralOrEnumerationType() && E->EvaluateAsInt(R, C))
            return lit(R.Val.getInt(), E->getType());
          if (VD->getType()->isReferenceType()) dieD("global reference", VD);
          return globalVar(VD);
        }
        if (lambdaCaps.count(VD)) {
          const FieldDecl* FD = lambdaCaps[VD];
          std::string r = "this->" + fieldName(FD);
          if (FD->getType()->isReferenceType()) return "(*" + r + ")";
          return r;
        }
        std::string n = localName(VD);
        return VD->getType()->isReferenceType() ? "(*" + n + ")" : n;
      }
      die("declref", E);
    }
    if (isa<CXXThisExpr>(E)) return lambdaThis ? "(this->" + fieldName(lambdaThis) + ")" : "this";
    if (auto* ME = dyn_cast<MemberExpr>(E)) {
      if (auto* FD = dyn_cast<FieldDecl>(ME->getMemberDecl())) {
        needRecord(FD->getParent());
        std::string base = ex(ME->getBase(), cx);
        std::string r = ME->isArrow() ? "(" + base + ")->" + fieldName(FD) : "(" + base + ")." + fieldName(FD);
        return FD->getType()->isReferenceType() ? "(*" + r + ")" : r;
      }
      if (auto* EC = dyn_cast<EnumConstantDecl>(ME->getMemberDecl())) return lit(EC->getInitVal(), E->getType());
      if (auto* VD = dyn_cast<VarDecl>(ME->getMemberDecl())) {  // static data member via object
        Expr::EvalResult R;
        if (VD->getType().isConstQualified() && E->EvaluateAsInt(R, C)) return lit(R.Val.getInt(), E->getType());
        return globalVar(VD);
      }
      die("member expr kind", E);
    }
    if (auto* IC = dyn_cast<CastExpr>(E)) return cast(IC, cx);
    if (auto* MT = dyn_cast<MaterializeTemporaryExpr>(E)) {
      const Expr* Sub = MT->getSubExpr()->IgnoreParens();
      if (isa<CXXBindTemporaryExpr>(Sub)) return ex(Sub, cx);  // shares the bound temporary's storage
      std::string t = newTmp(cx, MT->getType());
      QualType TT = MT->getType().getNonReferenceType().getUnqualifiedType();
      std::string flag;
      // a full-expression temporary (initInto peels the inner CXXBindTemporaryExpr without
      // registering it): destroy it at the end of the full-expression
      if (nonTrivialDtor(TT)) flag = registerTemp(cx, TT, t);
      return "(*(" + flag + initInto(t, MT->getType().getNonReferenceType(), Sub, cx) + ", &" + t + "))";
    }
    if (auto* EW = dyn_cast<ExprWithCleanups>(E)) return ex(EW->getSubExpr(), cx);
    if (auto* BT = dyn_cast<CXXBindTemporaryExpr>(E)) {
      QualType T = BT->getType();
      std::string t = newTmp(cx, T);
      std::string flag = registerTemp(cx, T, t);
      return "(*(" + flag + initInto(t, T, BT->getSubExpr(), cx) + ", &" + t + "))";
    }
    if (auto* UO = dyn_cast<UnaryOperator>(E)) {
      std::string s = ex(UO->getSubExpr(), cx);
      std::string r;
      switch (UO->getOpcode()) {
        case UO_AddrOf: return "(&" + s + ")";
        case UO_Deref: return "(*" + s + ")";
        case UO_LNot: return "((_Bool)!" + s + ")";
        case UO_Not: r = "(~" + s + ")"; break;
        case UO_Minus: r = "(-" + s + ")"; break;
        case UO_Plus: r = "(+" + s + ")"; break;
        case UO_PreInc: return "(++" + s + ")";
        case UO_PreDec: return "(--" + s + ")";
        case UO_PostInc: return "(" + s + "++)";
        case UO_PostDec: return "(" + s + "--)";
        default: die("unary op", E);
      }
      if (E->getType()->isIntegerType()) r = "((" + typeName(E->getType()) + ")" + r + ")";
      return r;
    }
    if (auto* BO = dyn_cast<BinaryOperator>(E)) {
      if (BO->getOpcode() == BO_PtrMemD || BO->getOpcode() == BO_PtrMemI) {
        const FieldDecl* FD = constMemberPointer(BO->getRHS());
        if (!FD) die("non-constant pointer-to-member", E);
        needRecord(FD->getParent());
        std::string base = ex(BO->getLHS(), cx);
        return BO->getOpcode() == BO_PtrMemI ? "(" + base + ")->" + fieldName(FD) : "(" + base + ")." + fieldName(FD);
      }
      bool shortCircuit = BO->getOpcode() == BO_LAnd || BO->getOpcode() == BO_LOr;
      std::string l = ex(BO->getLHS(), cx);
      if (shortCircuit) cx.condDepth++;
      std::string r = ex(BO->getRHS(), cx);
      if (shortCircuit) cx.condDepth--;
      if (BO->getOpcode() == BO_Assign && BO->getType()->isRecordType()) {
        needRecord(BO->getType()->getAsRecordDecl());
      }
      std::string res = "(" + l + " " + BO->getOpcodeStr().str() + " " + r + ")";
      if (BO->isComparisonOp() || shortCircuit) return "((_Bool)" + res + ")";
      if (!BO->isAssignmentOp() && !BO->isCommaOp() && E->getType()->isIntegerType() && !E->getType()->isBooleanType())
        res = "((" + typeName(E->getType()) + ")" + res + ")";
      return res;
    }
    if (auto* CO = dyn_cast<ConditionalOperator>(E)) {
      if (!E->isGLValue() && nonTrivialDtor(E->getType())) die("conditional operator yielding a class prvalue with a non-trivial destructor", E);
      std::string c = ex(CO->getCond(), cx);
      cx.condDepth++;
      std::string a = ex(CO->getTrueExpr(), cx), b = ex(CO->getFalseExpr(), cx);
      cx.condDepth--;
      if (E->isGLValue()) return "(*(" + c + " ? &" + a + " : &" + b + "))";
      return "(" + c + " ? " + a + " : " + b + ")";
    }
    if (auto* AS = dyn_cast<ArraySubscriptExpr>(E)) return "(" + ex(AS->getBase(), cx) + ")[" + ex(AS->getIdx(), cx) + "]";
    if (auto* CE = dyn_cast<CXXConstructExpr>(E)) {
      const CXXConstructorDecl* CD = CE->getConstructor();
      if (CD->isCopyOrMoveConstructor() && (CD->isTrivial() || CE->isElidable())) return ex(CE->getArg(0), cx);
      std::string t = newTmp(cx, CE->getType());
      return "(" + initInto(t, CE->getType(), CE, cx) + ", " + t + ")";
    }
    if (auto* IL = dyn_cast<InitListExpr>(E)) {
      if (IL->isGLValue() && IL->getNumInits() == 1) return ex(IL->getInit(0), cx);  // braced reference binding
      if (IL->getType()->isRecordType() || IL->getType()->isArrayType()) {
        std::string t = newTmp(cx, IL->getType());
        std::string z = "memset(&" + t + ", 0, sizeof(" + t + ")), ";
        return "(" + z + initListInto(t, IL->getType(), IL, cx) + ", " + t + ")";
      }
      if (IL->getNumInits() == 1) return ex(IL->getInit(0), cx);
      if (IL->getNumInits() == 0) return "((" + typeName(IL->getType()) + ")0)";
      die("init list", E);
    }
    if (auto* MC_ = dyn_cast<CXXMemberCallExpr>(E)) {
      const CXXMethodDecl* M = MC_->getMethodDecl();
      const Expr* Obj = MC_->getImplicitObjectArgument();
      if (!M) {
        // call through a pointer to member function value: (obj.*pmf)(args) / (ptr->*pmf)(args)
        auto* BO = dyn_cast<BinaryOperator>(MC_->getCallee()->IgnoreParens());
        if (!BO || (BO->getOpcode() != BO_PtrMemD && BO->getOpcode() != BO_PtrMemI)) die("call through pointer to member function", E);
        auto* MPT = BO->getRHS()->getType()->getAs<MemberPointerType>();
        auto* FT = MPT ? MPT->getPointeeType()->getAs<FunctionProtoType>() : nullptr;
        if (!FT) die("member pointer call type", E);
        std::string obj = ex(BO->getLHS(), cx);
        std::string thisArg = BO->getOpcode() == BO_PtrMemI ? obj : "(&" + obj + ")";
        std::string pmf = ex(BO->getRHS(), cx);
        std::string s2 = thisArg;
        unsigned i = 0;
        for (const Expr* A : MC_->arguments()) {
          std::string a = ex(A, cx);
          if (i < FT->getNumParams() && FT->getParamType(i)->isReferenceType()) a = "(&" + a + ")";
          s2 += ", " + a;
          i++;
        }
        std::string call = "(" + pmf + ")(" + s2 + ")";
        return FT->getReturnType()->isReferenceType() ? "(*" + call + ")" : call;
      }
      if (isa<CXXDestructorDecl>(M)) {
        std::string o = ex(Obj, cx);
        std::string thisArg = Obj->getType()->isPointerType() ? o : "(&" + o + ")";
        if (M->isTrivial()) return "((void)" + thisArg + ")";
        need(M);
        return fnName(M) + "(" + thisArg + ")";
      }
      if (isa<CXXConversionDecl>(M) && M->getParent()->isLambda()) die("lambda to function pointer conversion", E);
      need(M);
      std::string o = ex(Obj, cx);
      std::string thisArg = Obj->getType()->isPointerType() ? o : "(&" + o + ")";
      return deref(M, fnName(M) + "(" + joinArgs(thisArg, M, MC_->arguments(), cx) + ")");
    }
    if (auto* OC = dyn_cast<CXXOperatorCallExpr>(E)) {
      const FunctionDecl* F = OC->getDirectCallee();
      if (!F) die("operator call", E);
      if (auto* M = dyn_cast<CXXMethodDecl>(F)) {
        if (M->isTrivial() && (M->isCopyAssignmentOperator() || M->isMoveAssignmentOperator())) {
          needRecord(M->getParent());
          return "(" + ex(OC->getArg(0), cx) + " = " + ex(OC->getArg(1), cx) + ")";
        }
        need(F);
        if (M->isStatic()) die("static operator", E);
        std::string o = ex(OC->getArg(0), cx);
        std::vector<const Expr*> rest(OC->arg_begin() + 1, OC->arg_end());
        return deref(M, fnName(M) + "(" + joinArgs("(&" + o + ")", M, rest, cx) + ")");
      }
      need(F);
      return deref(F, fnName(F) + "(" + joinArgs("", F, OC->arguments(), cx) + ")");
    }
    if (auto* CE2 = dyn_cast<CallExpr>(E)) {
      if (auto* PD = dyn_cast<CXXPseudoDestructorExpr>(CE2->getCallee()->IgnoreParens())) return "((void)" + ex(PD->getBase(), cx) + ")";
      const FunctionDecl* F = CE2->getDirectCallee();
      if (!F) {
        // indirect call through a function pointer value
        std::string callee = ex(CE2->getCallee(), cx);
        const FunctionProtoType* FT = CE2->getCallee()->getType()->getPointeeType()->getAs<FunctionProtoType>();
        if (!FT) die("indirect call", E);
        std::string s;
        unsigned i = 0;
        for (const Expr* A : CE2->arguments()) {
          std::string a = ex(A, cx);
          if (i < FT->getNumParams() && FT->getParamType(i)->isReferenceType()) a = "(&" + a + ")";
          s += (s.empty() ? "" : ", ") + a;
          i++;
        }
        std::string call = "(" + callee + ")(" + s + ")";
        return FT->getReturnType()->isReferenceType() ? "(*" + call + ")" : call;
      }
      std::string q = F->getQualifiedNameAsString();
      auto arglist = [&]() { std::string s; for (auto* A : CE2->arguments()) s += (s.empty() ? "" : ", ") + ex(A, cx); return s; };
      if (q == "vt_check" || q == "vt_cover") {
        auto* SL = dyn_cast<StringLiteral>(CE2->getArg(1)->IgnoreParenImpCasts());
        if (!SL) die("vt_check/vt_cover need a literal obligation name", E);
        std::string c = ex(CE2->getArg(0), cx);
        return (q == "vt_check" ? "VT_CHECK(" : "VT_COVER(") + c + ", " + strLit(SL) + ")";
      }
      if (q == "vt_assume") return "VT_ASSUME(" + ex(CE2->getArg(0), cx) + ")";
      if (q == "memcpy" || q == "std::memcpy" || q == "__builtin_memcpy") return "memcpy(" + arglist() + ")";
      if (q == "memmove" || q == "std::memmove" || q == "__builtin_memmove") return "memmove(" + arglist() + ")";
      if (q == "memset" || q == "std::memset" || q == "__builtin_memset") return "memset(" + arglist() + ")";
      if (q == "memcmp" || q == "std::memcmp" || q == "__builtin_memcmp") return "memcmp(" + arglist() + ")";
      if (q == "strlen" || q == "std::strlen" || q == "__builtin_strlen") return "strlen(" + arglist() + ")";
      if (q == "memchr" || q == "std::memchr" || q == "__builtin_memchr" || q == "__builtin_char_memchr") return "memchr(" + arglist() + ")";
      if (q == "std::move" || q == "std::forward" || q == "std::addressof" || q == "std::__addressof" || q == "std::move_if_noexcept") {
        std::string a = ex(CE2->getArg(0), cx);
        return (q == "std::addressof" || q == "std::__addressof") ? "(&" + a + ")" : a;
      }
      if (q == "__builtin_expect") return ex(CE2->getArg(0), cx);
      if (q == "std::__is_constant_evaluated" || q == "__builtin_is_constant_evaluated") return "((_Bool)0)";
      if (F->getBuiltinID() && !withBody(F) && q.rfind("__builtin", 0) == 0) {
        // a builtin the compiler itself folds to a constant (e.g. __builtin_nanf(""), __builtin_huge_val()): emit the constant
        Expr::EvalResult R;
        if (E->EvaluateAsRValue(R, C) && !R.HasSideEffects) {
          if (R.Val.isInt()) return lit(R.Val.getInt(), E->getType());
          if (R.Val.isFloat()) {
            llvm::APInt bits = R.Val.getFloat().bitcastToAPInt();
            if (bits.getBitWidth() == 32) return "vt_f32_from_bits(" + std::to_string(bits.getZExtValue()) + "u)";
            if (bits.getBitWidth() == 64) return "vt_f64_from_bits(" + std::to_string(bits.getZExtValue()) + "ul)";
          }
        }
        die("builtin " + q, E);
      }
      need(F);
      return deref(F, fnName(F) + "(" + joinArgs("", F, CE2->arguments(), cx) + ")");
    }
    if (auto* SI = dyn_cast<CXXStdInitializerListExpr>(E)) {
      // only the "(void)std::initializer_list<bool>{(e, false)...}" idiom: evaluate elements in order
      const Expr* S = SI->getSubExpr()->IgnoreParenImpCasts();
      if (auto* MT = dyn_cast<MaterializeTemporaryExpr>(S)) S = MT->getSubExpr()->IgnoreParenImpCasts();
      auto* IL = dyn_cast<InitListExpr>(S);
      if (!IL) die("initializer_list", E);
      if (!voidContext) die("std::initializer_list used as a value", E);
      std::string s = "(";
      for (unsigned i = 0; i < IL->getNumInits(); i++) s += (i ? ", " : "") + ex(IL->getInit(i), cx);
      if (IL->getNumInits() == 0) s += "0";
      return s + ")";
    }
    if (auto* DI = dyn_cast<CXXDefaultInitExpr>(E)) return ex(DI->getExpr(), cx);
    if (auto* DA = dyn_cast<CXXDefaultArgExpr>(E)) return ex(DA->getExpr(), cx);
    if (isa<ImplicitValueInitExpr>(E) || isa<CXXScalarValueInitExpr>(E)) {
      if (E->getType()->isRecordType() || E->getType()->isArrayType()) {
        std::string t = newTmp(cx, E->getType());
        return "(memset(&" + t + ", 0, sizeof(" + t + ")), " + t + ")";
      }
      return "((" + typeName(E->getType()) + ")0)";
    }
    if (auto* SP = dyn_cast<SizeOfPackExpr>(E)) return "((" + typeName(E->getType()) + ")" + std::to_string(SP->getPackLength()) + "ULL)";
    if (auto* NE = dyn_cast<CXXNewExpr>(E)) {
      if (NE->getNumPlacementArgs() != 1 || NE->isArray()) die("non-placement new", E);
      std::string addr = ex(NE->getPlacementArg(0), cx);
      QualType AT = NE->getAllocatedType();
      std::string p = newTmp(cx, C.getPointerType(AT));
      std::string s = "(" + p + " = (" + typeName(C.getPointerType(AT), false) + ")" + addr;
      if (const Expr* I = NE->getInitializer()) s += ", " + initInto("(*" + p + ")", AT, I, cx);
      return s + ", " + p + ")";
    }
    if (auto* LE = dyn_cast<LambdaExpr>(E)) {
      const CXXRecordDecl* LC = LE->getLambdaClass();
      needRecord(LC);
      std::string t = newTmp(cx, C.getRecordType(LC));
      std::string s = "(";
      auto it = LE->capture_init_begin();
      bool any = false;
      for (auto* F : LC->fields()) {
        const Expr* I = *it++;
        std::string lhs = t + "." + fieldName(F);
        if (F->getType()->isReferenceType()) s += std::string(any ? ", " : "") + "(" + lhs + " = &" + ex(I, cx) + ")";
        else s += std::string(any ? ", " : "") + initInto(lhs, F->getType(), I, cx);
        any = true;
      }
      if (!any) s += "(void)0";
      return s + ", " + t + ")";
    }
    if (auto* SL = dyn_cast<SubstNonTypeTemplateParmExpr>(E)) return ex(SL->getReplacement(), cx);
    if (auto* PE = dyn_cast<PredefinedExpr>(E)) return strLit(PE->getFunctionName());
    if (auto* OV = dyn_cast<OpaqueValueExpr>(E)) { if (OV->getSourceExpr()) return ex(OV->getSourceExpr(), cx); }
    die(std::string("expr kind ") + E->getStmtClassName(), E);
  }

  bool voidContext = false;
  bool wantLvalue = false;  // the expression being lowered is bound to a reference / has its address taken

  template <typename Range>
  std::string joinArgs(std::string first, const FunctionDecl* F, Range args, Ctx& cx) {
    std::string s = first;
    unsigned i = 0;
    for (const Expr* A : args) {
      std::string a;
      bool isRef = i < F->getNumParams() && F->getParamDecl(i)->getType()->isReferenceType();
      if (!isRef && i < F->getNumParams() && F->getParamDecl(i)->getType()->isRecordType()) {
        // by-value class parameter: initialise the parameter object directly from the argument
        QualType PT = F->getParamDecl(i)->getType().getUnqualifiedType();
        const Expr* S = skipTemps(A);
        auto* CE = dyn_cast<CXXConstructExpr>(S);
        if (CE && !CE->getConstructor()->isTrivial()) {
          std::string t = newTmp(cx, PT);
          std::string flag;
          if (nonTrivialDtor(PT)) flag = registerTemp(cx, PT, t);
          a = "(" + flag + initInto(t, PT, S, cx) + ", " + t + ")";
        } else {
          if (nonTrivialDtor(PT)) die("by-value class argument with non-trivial destructor from non-constructor expression", A);
          a = ex(A, cx);
        }
      } else {
        bool saved = wantLvalue;
        wantLvalue = isRef && isa<DeclRefExpr>(A->IgnoreParenImpCasts());
        a = ex(A, cx);
        wantLvalue = saved;
        if (isRef) a = "(&" + a + ")";
      }
      s += (s.empty() ? "" : ", ") + a;
      i++;
    }
    return s;
  }

  std::string cast(const CastExpr* CE, Ctx& cx) {
    const Expr* S = CE->getSubExpr();
    switch (CE->getCastKind()) {
      case CK_LValueToRValue: case CK_NoOp: case CK_ConstructorConversion: case CK_UserDefinedConversion:
      case CK_FunctionToPointerDecay: case CK_BuiltinFnToFnPtr:
        return ex(S, cx);
      case CK_ArrayToPointerDecay:
        if (isa<StringLiteral>(S->IgnoreParens())) return ex(S, cx);
        return "(&(" + ex(S, cx) + ")[0])";
      case CK_IntegralCast: case CK_IntegralToFloating: case CK_FloatingToIntegral: case CK_FloatingCast:
      case CK_BitCast: case CK_PointerToIntegral: case CK_IntegralToPointer: case CK_BooleanToSignedIntegral:
        return "((" + typeName(CE->getType(), false) + ")" + ex(S, cx) + ")";
      case CK_IntegralToBoolean: case CK_PointerToBoolean: case CK_FloatingToBoolean:
        return "((_Bool)(" + ex(S, cx) + " != 0))";
      case CK_NullToPointer: return "((" + typeName(CE->getType(), false) + ")0)";
      case CK_ToVoid: {
        bool saved = voidContext;
        voidContext = true;
        std::string r = "((void)" + ex(S, cx) + ")";
        voidContext = saved;
        return r;
      }
      case CK_LValueBitCast: return "(*(" + typeName(C.getPointerType(CE->getType()), false) + ")&" + ex(S, cx) + ")";
      case CK_DerivedToBase: case CK_UncheckedDerivedToBase: {
        std::string s = ex(S, cx);
        bool ptr = S->getType()->isPointerType();
        QualType cur = ptr ? S->getType()->getPointeeType() : S->getType();
        std::string path = basePath(CE, cur);
        if (ptr) return "(&(*" + s + ")" + path + ")";
        return "(" + s + ")" + path;
      }
      case CK_BaseToDerived: {
        // valid as a plain pointer cast only when every step is the first base (offset 0)
        bool ptr = S->getType()->isPointerType();
        QualType derived = ptr ? CE->getType()->getPointeeType() : CE->getType();
        QualType cur = derived;
        for (auto it = CE->path_begin(); it != CE->path_end(); ++it) {}
        // path lists bases from derived to base; check each is base #0
        {
          std::vector<const CXXBaseSpecifier*> P(CE->path_begin(), CE->path_end());
          for (auto* B : P) {
            const CXXRecordDecl* D = cur->getAsCXXRecordDecl()->getDefinition();
            if (D->getNumBases() == 0 || !C.hasSameUnqualifiedType(D->bases_begin()->getType(), B->getType())) die("base-to-derived cast through a non-first base", CE);
            cur = B->getType();
          }
        }
        needRecord(derived->getAsRecordDecl());
        if (ptr) return "((" + typeName(CE->getType(), false) + ")" + ex(S, cx) + ")";
        return "(*(" + typeName(C.getPointerType(derived), false) + ")&" + ex(S, cx) + ")";
      }
      default: die(std::string("cast kind ") + CE->getCastKindName(), CE);
    }
  }

  // ------------------------------------------------------------------ statements
  struct ScopeVar { std::string name; QualType T; };
  struct Scope { std::vector<ScopeVar> vars; bool isLoopOrSwitch = false; bool isSwitch = false; };
  std::vector<Scope> scopes;
  int loopCounter = 0;
  std::string curKey;

  std::string ind(int d) { return std::string(d * 2, ' '); }
  std::string lineDir(const Stmt* S, int d) {
    if (!LineDirectives || !S) return "";
    auto& SM = C.getSourceManager();
    PresumedLoc P = SM.getPresumedLoc(SM.getExpansionLoc(S->getBeginLoc()));
    if (P.isInvalid()) return "";
    (void)d;
    return "#line " + std::to_string(P.getLine()) + " \"" + P.getFilename() + "\"\n";
  }

  std::string unwindScopes(size_t downTo, int d) {
    std::string s;
    for (size_t i = scopes.size(); i > downTo; i--)
      for (auto it = scopes[i - 1].vars.rbegin(); it != scopes[i - 1].vars.rend(); ++it) s += ind(d) + dtorCall(it->T, it->name) + "\n";
    return s;
  }

  // full-expression statement
  std::string full(const Expr* E, int d, const std::string& prefix, const std::string& suffix) {
    Ctx cx;
    bool saved = voidContext;
    voidContext = prefix.empty();
    std::string e = ex(E, cx);
    voidContext = saved;
    if (cx.pre.empty() && cx.post.empty()) return ind(d) + prefix + e + suffix + "\n";
    std::string s = ind(d) + "{\n" + cx.pre + ind(d + 1) + prefix + e + suffix + "\n";
    for (auto it = cx.post.rbegin(); it != cx.post.rend(); ++it) s += ind(d + 1) + *it + "\n";
    return s + ind(d) + "}\n";
  }

  std::string varDecl(const VarDecl* VD, int d) {
    QualType T = VD->getType();
    if (VD->isStaticLocal()) {
      // function-local static: lowered to a global (zero-initialised); recorded in the census
      std::string g = globalVar(VD);
      if (dynamicInit.count(VD->getCanonicalDecl())) {
        Ctx cx;
        std::string init = initInto(g, T.getUnqualifiedType(), VD->getInit(), cx);
        std::string s = ind(d) + "if (!" + g + "__guard) {\n" + cx.pre + ind(d + 1) + init + ";\n";
        for (auto it = cx.post.rbegin(); it != cx.post.rend(); ++it) s += ind(d + 1) + *it + "\n";
        return s + ind(d + 1) + g + "__guard = 1;\n" + ind(d) + "}\n";
      }
      return ind(d) + "/* static local " + VD->getNameAsString() + " lowered to global */\n";
    }
    std::string n = localName(VD);
    Ctx cx;
    std::string s;
    bool hoist = false;
    if (loopDepth > 0 && !T->isReferenceType())
      for (auto& H : HoistNames) if (H == n) hoist = true;
    if (hoist) {
      if (hoistedNames.count(n)) dieD("--hoist: two loop-body locals named " + n + " in one function", VD);
      hoistedNames.insert(n);
      QualType UT = T.getUnqualifiedType();
      hoisted += "  " + declare(UT, n) + "; /* hoisted from a loop body */\n";
      if (VD->hasInit()) {
        std::string init = initInto(n, UT, VD->getInit(), cx);
        s = cx.pre + ind(d) + init + ";\n";
        for (auto it = cx.post.rbegin(); it != cx.post.rend(); ++it) s += ind(d) + *it + "\n";
      }
      if (nonTrivialDtor(UT) && !VD->isNRVOVariable()) scopes.back().vars.push_back({n, UT});
      return s;
    }
    if (T->isReferenceType()) {
      const Expr* I = VD->getInit();
      if (auto* EW = dyn_cast<ExprWithCleanups>(I)) I = EW->getSubExpr();
      if (auto* MT = dyn_cast<MaterializeTemporaryExpr>(I->IgnoreParens())) {
        // lifetime-extended temporary
        QualType TT = MT->getType().getNonReferenceType().getUnqualifiedType();
        std::string ext = "__ext_" + n;
        s = ind(d) + declare(TT, ext) + ";\n";
        std::string init = initInto(ext, TT, MT->getSubExpr(), cx);
        if (!cx.post.empty()) die("temporaries with destructors in reference initialiser", I);
        s = cx.pre + s + ind(d) + init + ";\n" + ind(d) + declare(T, n) + " = &" + ext + ";\n";
        if (nonTrivialDtor(TT)) scopes.back().vars.push_back({ext, TT});
        return s;
      }
      std::string init = "&" + ex(I, cx);
      s = cx.pre + ind(d) + declare(T, n) + " = " + init + ";\n";
      for (auto it = cx.post.rbegin(); it != cx.post.rend(); ++it) s += ind(d) + *it + "\n";
      return s;
    }
    QualType UT = T.getUnqualifiedType();
    s = ind(d) + declare(UT, n) + ";\n";
    if (VD->hasInit()) {
      std::string init = initInto(n, UT, VD->getInit(), cx);
      s = cx.pre + s + ind(d) + init + ";\n";
      for (auto it = cx.post.rbegin(); it != cx.post.rend(); ++it) s += ind(d) + *it + "\n";
    }
    if (nonTrivialDtor(UT) && !VD->isNRVOVariable()) scopes.back().vars.push_back({n, UT});
    if (VD->isNRVOVariable()) nrvoVars.insert(VD);
    return s;
  }
  std::set<const VarDecl*> nrvoVars;
  int loopDepth = 0;
  std::string hoisted;
  std::set<std::string> hoistedNames;

  std::string loopMarker(int d) {
    std::string m = ind(d) + "/*LOOP " + std::to_string(loopCounter++) + "*/\n";
    return m;
  }

  std::string body(const Stmt* S, int d) {
    // loop/if bodies: always a compound in C so that hoisted temporaries and scope
    // destructors have a block to live in
    if (isa<CompoundStmt>(S)) return st(S, d);
    scopes.push_back({});
    std::string s = ind(d) + "{\n" + st(S, d + 1) + unwindScopes(scopes.size() - 1, d + 1) + ind(d) + "}\n";
    scopes.pop_back();
    return s;
  }

  bool endsWithJump(const CompoundStmt* CS) {
    if (CS->body_empty()) return false;
    const Stmt* L = CS->body_back();
    return isa<ReturnStmt>(L) || isa<BreakStmt>(L) || isa<ContinueStmt>(L);
  }

  std::string st(const Stmt* S, int d) {
    if (!S) return "";
    if (auto* CS = dyn_cast<CompoundStmt>(S)) {
      scopes.push_back({});
      std::string s = ind(d) + "{\n";
      for (auto* X : CS->body()) s += st(X, d + 1);
      if (!endsWithJump(CS)) s += unwindScopes(scopes.size() - 1, d + 1);
      scopes.pop_back();
      return s + ind(d) + "}\n";
    }
    std::string L = lineDir(S, d);
    if (auto* DS = dyn_cast<DeclStmt>(S)) {
      std::string s = L;
      for (auto* D : DS->decls()) {
        if (auto* VD = dyn_cast<VarDecl>(D)) s += varDecl(VD, d);
        else if (isa<TypedefNameDecl>(D) || isa<StaticAssertDecl>(D) || isa<UsingDecl>(D) || isa<RecordDecl>(D) || isa<UsingDirectiveDecl>(D) || isa<EnumDecl>(D)) continue;
        else dieD(std::string("decl in DeclStmt: ") + D->getDeclKindName(), D);
      }
      return s;
    }
    if (auto* RS = dyn_cast<ReturnStmt>(S)) {
      std::string dt = unwindScopes(0, d + 1);
      if (!RS->getRetValue()) return L + (dt.empty() ? ind(d) + "return;\n" : ind(d) + "{\n" + dt + ind(d + 1) + "return;\n" + ind(d) + "}\n");
      QualType RT = curFn->getReturnType();
      if (RT->isVoidType()) {
        std::string s = full(RS->getRetValue(), d + 1, "", ";");
        return L + ind(d) + "{\n" + s + dt + ind(d + 1) + "return;\n" + ind(d) + "}\n";
      }
      Ctx cx;
      std::string s;
      if (RT->isReferenceType()) {
        std::string e = "&" + ex(RS->getRetValue(), cx);
        if (cx.pre.empty() && cx.post.empty() && dt.empty()) return L + ind(d) + "return " + e + ";\n";
        s = ind(d) + "{\n" + cx.pre + ind(d + 1) + declare(RT, "__ret") + " = " + e + ";\n";
      } else {
        // NRVO: `return x;` where x is the NRVO variable is a plain value return, and x is not destroyed
        const Expr* R = skipTemps(RS->getRetValue());
        QualType UT = RT.getUnqualifiedType();
        if (!RT->isRecordType()) {
          std::string e = ex(RS->getRetValue(), cx);
          if (cx.pre.empty() && cx.post.empty() && dt.empty()) return L + ind(d) + "return " + e + ";\n";
          s = ind(d) + "{\n" + cx.pre + ind(d + 1) + declare(UT, "__ret") + " = " + e + ";\n";
        } else {
          std::string init = initInto("__ret", UT, R, cx);
          s = ind(d) + "{\n" + cx.pre + ind(d + 1) + declare(UT, "__ret") + ";\n" + ind(d + 1) + init + ";\n";
        }
      }
      for (auto it = cx.post.rbegin(); it != cx.post.rend(); ++it) s += ind(d + 1) + *it + "\n";
      return L + s + dt + ind(d + 1) + "return __ret;\n" + ind(d) + "}\n";
    }
    if (auto* IS = dyn_cast<IfStmt>(S)) {
      if (IS->getInit() || IS->getConditionVariable()) die("if with init/condvar", S);
      if (IS->isConstexpr()) die("if constexpr", S);
      Ctx cx;
      std::string c = ex(IS->getCond(), cx);
      std::string s;
      if (!cx.post.empty()) {
        // evaluate the condition into a flag, destroy the temporaries, then branch
        s = cx.pre + ind(d) + "_Bool __c = " + c + ";\n";
        for (auto it = cx.post.rbegin(); it != cx.post.rend(); ++it) s += ind(d) + *it + "\n";
        c = "__c";
        cx.pre = " ";
        s = s + ind(d) + "if (" + c + ")\n" + body(IS->getThen(), d + 1);
      } else s = cx.pre + ind(d) + "if (" + c + ")\n" + body(IS->getThen(), d + 1);
      if (IS->getElse()) s += ind(d) + "else\n" + body(IS->getElse(), d + 1);
      return L + (cx.pre.empty() ? s : ind(d) + "{\n" + s + ind(d) + "}\n");
    }
    if (auto* FS = dyn_cast<ForStmt>(S)) {
      Ctx cx;
      scopes.push_back({});
      scopes.back().isLoopOrSwitch = false;
      std::string s = ind(d) + "{\n" + st(FS->getInit(), d + 1);
      std::string c = FS->getCond() ? ex(FS->getCond(), cx) : "1";
      bool saved = voidContext;
      voidContext = true;
      std::string inc = FS->getInc() ? ex(FS->getInc(), cx) : "";
      voidContext = saved;
      if (!cx.pre.empty() || !cx.post.empty()) die("temporaries in for header", S);
      if (FS->getConditionVariable()) die("for with condition variable", S);
      std::string m = loopMarker(d + 1);
      scopes.push_back({});
      scopes.back().isLoopOrSwitch = true;
      size_t mark = scopes.size();
      (void)mark;
      loopDepth++;
      s += L + ind(d + 1) + "for (; " + c + "; " + inc + ")\n" + m + body(FS->getBody(), d + 1);
      loopDepth--;
      scopes.pop_back();
      s += unwindScopes(scopes.size() - 1, d + 1);
      scopes.pop_back();
      return s + ind(d) + "}\n";
    }
    if (auto* RF = dyn_cast<CXXForRangeStmt>(S)) {
      // desugared pieces: range decl, begin decl, end decl, cond, inc, loop variable decl
      if (RF->getInit()) die("range-for with init", S);
      scopes.push_back({});
      std::string s = ind(d) + "{\n" + st(RF->getRangeStmt(), d + 1) + st(RF->getBeginStmt(), d + 1) + st(RF->getEndStmt(), d + 1);
      Ctx cx;
      std::string c = ex(RF->getCond(), cx);
      bool saved = voidContext;
      voidContext = true;
      std::string inc = ex(RF->getInc(), cx);
      voidContext = saved;
      if (!cx.pre.empty() || !cx.post.empty()) die("temporaries in range-for header", S);
      std::string m = loopMarker(d + 1);
      scopes.push_back({});
      scopes.back().isLoopOrSwitch = true;
      scopes.push_back({});
      loopDepth++;
      std::string b = ind(d + 1) + "{\n" + st(RF->getLoopVarStmt(), d + 2) + body(RF->getBody(), d + 2) + unwindScopes(scopes.size() - 1, d + 2) + ind(d + 1) + "}\n";
      loopDepth--;
      scopes.pop_back();
      scopes.pop_back();
      s += L + ind(d + 1) + "for (; " + c + "; " + inc + ")\n" + m + b;
      s += unwindScopes(scopes.size() - 1, d + 1);
      scopes.pop_back();
      return s + ind(d) + "}\n";
    }
    if (auto* WS = dyn_cast<WhileStmt>(S)) {
      Ctx cx;
      std::string c = ex(WS->getCond(), cx);
      if (!cx.pre.empty() || !cx.post.empty() || WS->getConditionVariable()) die("temporaries in while header", S);
      std::string m = loopMarker(d);
      scopes.push_back({});
      scopes.back().isLoopOrSwitch = true;
      loopDepth++;
      std::string s = L + ind(d) + "while (" + c + ")\n" + m + body(WS->getBody(), d);
      loopDepth--;
      scopes.pop_back();
      return s;
    }
    if (auto* DS3 = dyn_cast<DoStmt>(S)) {
      Ctx cx;
      std::string c = ex(DS3->getCond(), cx);
      if (!cx.pre.empty() || !cx.post.empty()) die("temporaries in do-while condition", S);
      std::string m = loopMarker(d);
      scopes.push_back({});
      scopes.back().isLoopOrSwitch = true;
      loopDepth++;
      std::string s = L + ind(d) + "do\n" + m + body(DS3->getBody(), d) + ind(d) + "while (" + c + ");\n";
      loopDepth--;
      scopes.pop_back();
      return s;
    }
    if (auto* SS = dyn_cast<SwitchStmt>(S)) {
      if (SS->getInit() || SS->getConditionVariable()) die("switch with init/condvar", S);
      Ctx cx;
      std::string c = ex(SS->getCond(), cx);
      if (!cx.post.empty()) die("temporaries with destructors in switch condition", S);
      scopes.push_back({});
      scopes.back().isLoopOrSwitch = true;
      scopes.back().isSwitch = true;
      std::string s = L + cx.pre + ind(d) + "switch (" + c + ")\n" + st(SS->getBody(), d);
      scopes.pop_back();
      return cx.pre.empty() ? s : ind(d) + "{\n" + s + ind(d) + "}\n";
    }
    if (auto* CS2 = dyn_cast<CaseStmt>(S)) {
      Expr::EvalResult R;
      if (!CS2->getLHS()->EvaluateAsInt(R, C) || CS2->getRHS()) die("case", S);
      return ind(d) + "case " + lit(R.Val.getInt(), CS2->getLHS()->getType()) + ":\n" + st(CS2->getSubStmt(), d + 1);
    }
    if (auto* DS2 = dyn_cast<DefaultStmt>(S)) return ind(d) + "default:\n" + st(DS2->getSubStmt(), d + 1);
    if (isa<BreakStmt>(S) || isa<ContinueStmt>(S)) {
      size_t i = scopes.size();
      if (isa<BreakStmt>(S)) while (i > 0 && !scopes[i - 1].isLoopOrSwitch) i--;
      else while (i > 0 && !(scopes[i - 1].isLoopOrSwitch && !scopes[i - 1].isSwitch)) i--;
      if (i == 0) die("break/continue outside loop", S);
      std::string dt = unwindScopes(i, d);
      return L + dt + ind(d) + (isa<BreakStmt>(S) ? "break;\n" : "continue;\n");
    }
    if (isa<NullStmt>(S)) return ind(d) + ";\n";
    if (auto* AS = dyn_cast<AttributedStmt>(S)) return st(AS->getSubStmt(), d);
    if (auto* E = dyn_cast<Expr>(S)) return L + full(E, d, "", ";");
    die(std::string("stmt kind ") + S->getStmtClassName(), S);
  }

  std::string signature(const FunctionDecl* F) {
    std::string params;
    if (auto* M = dyn_cast<CXXMethodDecl>(F))
      if (M->isInstance()) params = declare(C.getPointerType(C.getRecordType(M->getParent())), "this", false);
    for (auto* P : F->parameters()) {
      std::string n = localName(P);
      params += (params.empty() ? "" : ", ") + declare(P->getType().getUnqualifiedType(), n);
    }
    if (F->isVariadic()) die("variadic function " + F->getQualifiedNameAsString());
    if (params.empty()) params = "void";
    QualType R = isa<CXXConstructorDecl>(F) || isa<CXXDestructorDecl>(F) ? C.VoidTy : F->getReturnType();
    if (R->isReferenceType()) return declare(C.getPointerType(R.getNonReferenceType()), fnName(F) + "(" + params + ")", false);
    if (R->isPointerType()) return declare(R, fnName(F) + "(" + params + ")", false);
    return typeName(R) + " " + fnName(F) + "(" + params + ")";
  }

  const FunctionDecl* curFn = nullptr;
  llvm::DenseMap<const VarDecl*, FieldDecl*> lambdaCaps;
  FieldDecl* lambdaThis = nullptr;
  std::string deref(const FunctionDecl* F, const std::string& call) { return F->getReturnType()->isReferenceType() ? "(*" + call + ")" : call; }

  int baseIndex(const CXXRecordDecl* D, const Type* Base) {
    int bi = 0, found = -1;
    for (auto& BB : D->bases()) { if (C.hasSameUnqualifiedType(BB.getType(), QualType(Base, 0))) found = bi; bi++; }
    return found;
  }

  void emit(const FunctionDecl* F0) {
    const FunctionDecl* F = withBody(F0);
    curFn = F ? F : F0;
    lambdaCaps.clear();
    lambdaThis = nullptr;
    localNames.clear();
    scopes.clear();
    loopCounter = 0;
    if (F)
      if (auto* MD = dyn_cast<CXXMethodDecl>(F))
        if (MD->getParent()->isLambda()) {
          llvm::DenseMap<const VarDecl*, FieldDecl*> caps;
          MD->getParent()->getCaptureFields(caps, lambdaThis);
          for (auto& kv : caps) lambdaCaps[kv.first] = kv.second;
        }
    const FunctionDecl* FS = F ? F : F0;
    if (!F && !F0->isExternC() && F0->isDefaulted()) dieD("defaulted function without synthesised body: " + F0->getQualifiedNameAsString(), F0);
    std::string sig = signature(FS);
    curKey = cxxKey(FS);
    protos += sig + ";\n";
    std::string params = "[";
    if (auto* M = dyn_cast<CXXMethodDecl>(FS)) if (M->isInstance()) params += "\"this\"";
    for (auto* P : FS->parameters()) params += std::string(params.size() > 1 ? "," : "") + "\"" + localName(P) + "\"";
    params += "]";
    if (!F) {
      bodies += "/* external (no body): " + curKey + " */\n";
      mapFns.push_back("{\"key\":\"" + jsonEsc(curKey) + "\",\"c\":\"" + fnName(FS) + "\",\"loc\":\"" + jsonEsc(loc(FS->getLocation())) + "\",\"body\":false,\"loops\":0,\"params\":" + params +
                       ",\"main\":" + (C.getSourceManager().isInMainFile(C.getSourceManager().getExpansionLoc(FS->getLocation())) ? "true" : "false") + "}");
      return;
    }
    std::string b = "/* " + curKey + " @ " + loc(F->getLocation()) + " */\n/*FUNCTION " + fnName(F) + "*/\n" + sig + "\n{\n/*HOISTED*/";
    hoisted.clear();
    hoistedNames.clear();
    loopDepth = 0;
    scopes.push_back({});
    if (auto* CD = dyn_cast<CXXConstructorDecl>(F)) {
      for (auto* I : CD->inits()) {
        Ctx cx;
        std::string line;
        if (I->isAnyMemberInitializer()) {
          const FieldDecl* FD = I->getAnyMember();
          std::string lhs = "this->" + fieldName(FD);
          if (I->isIndirectMemberInitializer()) {
            // member of an anonymous union/struct: walk the chain of anonymous fields
            lhs = "(*this)";
            for (auto* ND : I->getIndirectMember()->chain()) {
              auto* CF = dyn_cast<FieldDecl>(ND);
              if (!CF) dieD("indirect member chain", CD);
              needRecord(CF->getParent());
              lhs += "." + fieldName(CF);
            }
          }
          if (FD->getType()->isReferenceType()) line = "(" + lhs + " = &" + ex(I->getInit(), cx) + ")";
          else line = initInto(lhs, FD->getType(), I->getInit(), cx);
        } else if (I->isBaseInitializer()) {
          int found = baseIndex(CD->getParent(), I->getBaseClass());
          if (found < 0) dieD("base init", CD);
          std::string lhs = "this->__b" + std::to_string(found);
          const Expr* IE = skipTemps(I->getInit());
          if (auto* IC = dyn_cast<CXXInheritedCtorInitExpr>(IE)) {
            const CXXConstructorDecl* BC = IC->getConstructor();
            need(BC);
            std::string args = "&" + lhs;
            for (auto* P : CD->parameters()) args += ", " + localName(P);
            line = fnName(BC) + "(" + args + ")";
          } else line = initInto(lhs, QualType(I->getBaseClass(), 0), IE, cx);
        } else if (I->isDelegatingInitializer()) {
          line = initInto("(*this)", C.getRecordType(CD->getParent()), I->getInit(), cx);
        } else dieD("ctor initialiser kind", CD);
        b += cx.pre + "  " + line + ";\n";
        for (auto it = cx.post.rbegin(); it != cx.post.rend(); ++it) b += "  " + *it + "\n";
      }
    }
    if (auto* DD = dyn_cast<CXXDestructorDecl>(F)) {
      // body, then members in reverse order, then bases in reverse order
      std::string tail;
      const CXXRecordDecl* RD = DD->getParent();
      if (!RD->isUnion()) {
        std::vector<const FieldDecl*> fs(RD->field_begin(), RD->field_end());
        for (auto it = fs.rbegin(); it != fs.rend(); ++it)
          if (nonTrivialDtor((*it)->getType())) tail += "  " + dtorCall((*it)->getType(), "this->" + fieldName(*it)) + "\n";
      }
      int nb = RD->getNumBases();
      std::vector<QualType> bs;
      for (auto& B : RD->bases()) bs.push_back(B.getType());
      for (int i = nb - 1; i >= 0; i--)
        if (nonTrivialDtor(bs[i])) tail += "  " + dtorCall(bs[i], "this->__b" + std::to_string(i)) + "\n";
      std::string bd = st(F->getBody(), 1);
      if (!tail.empty() && bd.find("return") != std::string::npos) dieD("return inside destructor with member destructors", DD);
      b += bd + tail;
    } else {
      b += st(F->getBody(), 1);
    }
    scopes.pop_back();
    b += "}\n\n";
    b.replace(b.find("/*HOISTED*/"), 11, hoisted);
    bodies += b;
    mapFns.push_back("{\"key\":\"" + jsonEsc(curKey) + "\",\"c\":\"" + fnName(F) + "\",\"loc\":\"" + jsonEsc(loc(F->getLocation())) + "\",\"body\":true,\"loops\":" + std::to_string(loopCounter) +
                     ",\"params\":" + params + ",\"main\":" + (C.getSourceManager().isInMainFile(C.getSourceManager().getExpansionLoc(F->getLocation())) ? "true" : "false") + "}");
  }

  void run(const std::vector<const FunctionDecl*>& entries) {
    for (auto* F : entries) need(F);
    while (!work.empty()) {
      auto* F = work.front();
      work.pop_front();
      emit(F);
    }
    std::string fwd;
    for (auto& kv : recNames) fwd += kv.second + ";\n";
    std::string out = "/* generated by nop2c from the instantiated C++ AST; do not edit */\n#include \"vt_prelude.h\"\n" + fwd + "\n" + typeDefs + "\n" + globals + "\n" + protos +
                      "\n/*@CONTRACTS@*/\n\n" + bodies;
    std::error_code EC;
    if (OutFile == "-") llvm::outs() << out;
    else {
      llvm::raw_fd_ostream os(OutFile, EC);
      if (EC) { llvm::errs() << "cannot write " << OutFile << "\n"; exit(5); }
      os << out;
    }
    if (!MapFile.empty()) {
      llvm::raw_fd_ostream os(MapFile, EC);
      if (EC) { llvm::errs() << "cannot write " << MapFile << "\n"; exit(5); }
      auto join = [](const std::vector<std::string>& v) { std::string s; for (auto& x : v) s += (s.empty() ? "\n  " : ",\n  ") + x; return s; };
      os << "{\"functions\":[" << join(mapFns) << "],\n\"records\":[" << join(mapRecs) << "],\n\"globals\":[" << join(mapGlobals) << "],\n\"census\":[" << join(gCensus) << "]}\n";
    }
  }
};

struct V : RecursiveASTVisitor<V> {
  ASTContext& C;
  std::vector<const FunctionDecl*> found;
  V(ASTContext& c) : C(c) {}
  bool shouldVisitTemplateInstantiations() const { return true; }
  bool VisitFunctionDecl(FunctionDecl* F) {
    if (!F->doesThisDeclarationHaveABody() || F->isDependentContext()) return true;
    auto& SM = C.getSourceManager();
    bool inMain = SM.isInMainFile(SM.getExpansionLoc(F->getLocation()));
    if (auto* P = F->getTemplateInstantiationPattern()) inMain = SM.isInMainFile(SM.getExpansionLoc(P->getLocation()));
    std::string q = F->getQualifiedNameAsString();
    bool extra = false;
    for (auto& e : ExtraEntries) if (q.rfind(e, 0) == 0) extra = true;
    // roots: extern "C" harnesses (VT_HARNESS) and x_* instantiation wrappers of the unit
    bool root = inMain && !isa<CXXMethodDecl>(F) && (F->isExternC() || F->getName().startswith("x_"));
    if (root || extra) found.push_back(F);
    return true;
  }
};
// Storage census (C19): every variable with static or thread storage duration in the TU (including
// static locals and static data members of instantiated templates), whether or not lowered code uses it.
struct CensusV : RecursiveASTVisitor<CensusV> {
  ASTContext& C;
  std::vector<std::string> out;
  std::unique_ptr<MangleContext> MC;
  CensusV(ASTContext& c) : C(c), MC(ItaniumMangleContext::create(c, c.getDiagnostics())) {}
  bool shouldVisitTemplateInstantiations() const { return true; }
  bool VisitVarDecl(VarDecl* VD) {
    if (!VD->hasGlobalStorage() || VD->getDeclContext()->isDependentContext() || !VD->isThisDeclarationADefinition()) return true;
    if (isa<ParmVarDecl>(VD)) return true;
    if (VD->getType()->isDependentType()) return true;
    auto& SM = C.getSourceManager();
    PresumedLoc P = SM.getPresumedLoc(SM.getExpansionLoc(VD->getLocation()));
    if (P.isInvalid()) return true;
    std::string file = P.getFilename();
    std::string m;
    {
      llvm::raw_string_ostream os(m);
      if (VD->isExternC()) os << VD->getName();
      else MC->mangleName(GlobalDecl(VD), os);
    }
    PrintingPolicy PP(C.getLangOpts());
    bool isConst = VD->getType().isConstQualified() || VD->isConstexpr();
    out.push_back("{\"cxx\":\"" + jsonEsc(VD->getQualifiedNameAsString()) + "\",\"symbol\":\"" + jsonEsc(m) + "\",\"type\":\"" + jsonEsc(VD->getType().getAsString(PP)) +
                  "\",\"thread_local\":" + (VD->getTLSKind() != VarDecl::TLS_None ? "true" : "false") + ",\"static_local\":" + (VD->isStaticLocal() ? "true" : "false") +
                  ",\"const\":" + (isConst ? "true" : "false") + ",\"file\":\"" + jsonEsc(file) + "\",\"line\":" + std::to_string(P.getLine()) + "}");
    return true;
  }
};
struct Cn : ASTConsumer {
  void HandleTranslationUnit(ASTContext& C) override {
    if (C.getDiagnostics().hasErrorOccurred()) exit(4);
    gC = &C;
    V v(C);
    v.TraverseDecl(C.getTranslationUnitDecl());
    CensusV cv(C);
    cv.TraverseDecl(C.getTranslationUnitDecl());
    gCensus = cv.out;
    Lower L(C);
    L.run(v.found);
  }
};
struct A : ASTFrontendAction {
  std::unique_ptr<ASTConsumer> CreateASTConsumer(CompilerInstance&, StringRef) override { return std::make_unique<Cn>(); }
};
int main(int argc, const char** argv) {
  auto P = tooling::CommonOptionsParser::create(argc, argv, Cat);
  if (!P) { llvm::errs() << P.takeError(); return 1; }
  tooling::ClangTool T(P->getCompilations(), P->getSourcePathList());
  return T.run(tooling::newFrontendActionFactory<A>().get());
}
