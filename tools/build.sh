#!/bin/sh
# builds tools/nop2c (offline; clang 14 LibTooling from /usr/lib/llvm-14)
set -e
cd "$(dirname "$0")"
if [ nop2c -nt nop2c.cpp ] 2>/dev/null; then exit 0; fi
clang++ -std=c++14 -O1 -fno-rtti -I/usr/lib/llvm-14/include -fno-exceptions -D_GNU_SOURCE \
  -D__STDC_CONSTANT_MACROS -D__STDC_FORMAT_MACROS -D__STDC_LIMIT_MACROS \
  nop2c.cpp -o nop2c /usr/lib/llvm-14/lib/libclang-cpp.so.14 -L/usr/lib/llvm-14/lib -lLLVM-14 \
  -Wl,-rpath,/usr/lib/llvm-14/lib
