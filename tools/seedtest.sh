#!/bin/bash
# tools/seedtest.sh <worktree-id> <variant> <seed-name> <property> [more properties...]
# Confirms a sub-agent's seeded change (demo passes unchanged / fails patched, suite passes patched)
# in its scratch worktree, stores it under seeded/<seed-name>/, then applies it to /repo, runs the
# checks of the named properties, and undoes it straight afterwards.
set -u
WT=/tmp/wt/$1; V=$2; NAME=$3; shift 3
SRC=$WT/_seed/$V
DST=/verif/seeded/$NAME
mkdir -p $DST
cp $SRC/patch.diff $SRC/demo.cpp $DST/ 2>/dev/null
cp $SRC/notes.txt $DST/agent_notes.txt 2>/dev/null
cd $WT && git checkout -q -- include
g++ -std=c++14 -I$WT/include $DST/demo.cpp -o $WT/_demo 2>/dev/null && $WT/_demo >/dev/null 2>&1; U=$?
git apply $DST/patch.diff || { echo "patch does not apply in worktree"; exit 2; }
g++ -std=c++14 -I$WT/include $DST/demo.cpp -o $WT/_demo 2>/dev/null && $WT/_demo > $DST/demo_patched.out 2>&1; P=$?
make -C $WT -j8 >/dev/null 2>&1; T=$($WT/out/test 2>&1 | grep -c "PASSED  \] 315 tests")
git checkout -q -- include; rm -f $WT/_demo
echo "demo unchanged exit=$U patched exit=$P suite_passes_with_patch=$T"
cd /repo && git diff --quiet || { echo "/repo is dirty; refusing"; exit 2; }
trap 'git -C /repo checkout -q -- .' EXIT
git -C /repo apply $DST/patch.diff || { echo "patch does not apply to /repo HEAD"; exit 2; }
RES=""
for P_ in "$@"; do
  OUT=$(cd /verif && VT_SCRATCH_EVIDENCE=1 tools/vt.py check $P_ 2>&1); RC=$?
  NV=$(echo "$OUT" | grep -c "^VIOLATION")
  echo "$OUT" | grep "^VIOLATION\|^UNDECIDED\|   obligation" | cut -c1-260 | head -8
  echo "== check $P_: exit $RC, $NV VIOLATION line(s)"
  RES="$RES $P_:exit$RC:viol$NV"
done
git -C /repo checkout -q -- .
trap - EXIT
echo "SUMMARY $NAME demo_unchanged=$U demo_patched=$P suite=$T checks:$RES"
