#!/usr/bin/env python3
"""Parses the 'Prefix Definitions' table of /repo/docs/format.md and prints a C/C++ header with the
documented prefix byte values, so that the specification codec (spec/format_spec.h) takes its
constants from the document on every run, not from the code under verification."""
import os, re, sys
REPO = os.environ.get("VT_REPO", "/repo")
doc = os.path.join(REPO, "docs", "format.md")
if not os.path.exists(doc):
    doc = "/repo/docs/format.md"
rows = {}
for line in open(doc):
    m = re.match(r"^([a-z0-9 ]+?)\s*\|\s*(\w*)\s*\|\s*[-01x]+\s*\|\s*(0x[0-9a-f]{2})(?:\s*-\s*(0x[0-9a-f]{2}))?\s*\|", line)
    if m:
        rows[m.group(1).strip()] = (m.group(2), int(m.group(3), 16), int(m.group(4), 16) if m.group(4) else None)
need = {"positive fixint": "POS", "uint8": "U8", "uint16": "U16", "uint32": "U32", "uint64": "U64", "int8": "I8", "int16": "I16", "int32": "I32",
        "int64": "I64", "float32": "F32", "float64": "F64", "reserved": "RESERVED", "table": "TAB", "error": "ERR", "handle": "HND", "variant": "VAR",
        "structure": "STU", "array": "ARY", "map": "MAP", "binary": "BIN", "string": "STR", "nil": "NIL", "extension": "EXT", "negative fixint": "NEG",
        "false": "FALSE", "true": "TRUE"}
out = ["/* generated from docs/format.md by tools/gen_prefix.py — do not edit */", "#ifndef VT_FMT_PREFIX_H", "#define VT_FMT_PREFIX_H"]
for k, name in need.items():
    if k not in rows:
        sys.stderr.write("format.md: prefix row %r not found\n" % k)
        sys.exit(2)
    _, lo, hi = rows[k]
    if hi is None:
        out.append("#define FMT_%s 0x%02x" % (name, lo))
    else:
        out.append("#define FMT_%s_MIN 0x%02x" % (name, lo))
        out.append("#define FMT_%s_MAX 0x%02x" % (name, hi))
out.append("#endif")
print("\n".join(out))
