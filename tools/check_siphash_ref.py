#!/usr/bin/env python3
"""Validates spec/siphash_ref.h against the 64 official SipHash-2-4 vectors, which are parsed
out of /repo/test/sip_hash_tests.cpp (not copied).  Exit 0 iff all 64 match."""
import os, re, subprocess, sys, tempfile
VERIF = os.path.dirname(os.path.dirname(os.path.abspath(__file__)))
REPO = os.environ.get("VT_REPO", "/repo")
src = open(os.path.join(REPO if os.path.exists(os.path.join(REPO, "test")) else "/repo", "test", "sip_hash_tests.cpp")).read()
vecs = re.findall(r"\{\{((?:0x[0-9a-fA-F]{2},?\s*){8})\}\}", src)
if len(vecs) != 64:
    print("expected 64 vectors, found", len(vecs)); sys.exit(2)
vals = []
for v in vecs:
    b = [int(x, 16) for x in re.findall(r"0x[0-9a-fA-F]{2}", v)]
    vals.append(sum(x << (8 * i) for i, x in enumerate(b)))
prog = '#include <stdio.h>\n#include "siphash_ref.h"\nstatic const unsigned long long e[64]={%s};\nint main(void){unsigned char in[64];int bad=0;for(int i=0;i<64;i++){in[i]=i;if(vt_siphash24(in,i,0x0706050403020100ULL,0x0f0e0d0c0b0a0908ULL)!=e[i])bad++;}printf("%%d mismatches\\n",bad);return bad!=0;}\n' % ",".join("%dULL" % x for x in vals)
d = sys.argv[1] if len(sys.argv) > 1 else tempfile.mkdtemp(dir=os.path.join(VERIF, ".work") if os.path.isdir(os.path.join(VERIF, ".work")) else None)
os.makedirs(d, exist_ok=True)
c = os.path.join(d, "sipref.c"); exe = os.path.join(d, "sipref")
open(c, "w").write(prog)
subprocess.check_call(["gcc", "-O1", "-I", os.path.join(VERIF, "spec"), c, "-o", exe])
r = subprocess.run([exe], stdout=subprocess.PIPE)
print("siphash_ref vs 64 official vectors:", r.stdout.decode().strip())
os.remove(c); os.remove(exe)
sys.exit(r.returncode)
