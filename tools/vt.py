#!/usr/bin/env python3
"""vt — runner for the contract-based verification of google/libnop (DESIGN.md §3).

  tools/vt.py check <PROPERTY> [--tier quick|thorough] [--jobs name,name] [--keep]
  tools/vt.py replay <replay-file>
  tools/vt.py list

Pipeline per unit (units/<u>.cpp + units/<u>.spec), rebuilt from /repo's working tree on
every run:  nop2c (C++ AST -> C)  ->  splice contracts / loop contracts (must-fire)  ->
goto-cc  ->  goto-instrument --dfcc (enforce f, replace callees, loop contracts)  ->  cbmc
->  obligation table  ->  native replay of counterexamples on the real C++ code.

Exit codes: 0 all obligations discharged (KNOWN-FINDING lines allowed), 1 violation
(VIOLATION line printed), 2 undecided / machinery failure (never reported as violation).
"""
import concurrent.futures
import hashlib
import json
import os
import re
import resource
import shutil
import subprocess
import sys
import time

VERIF = os.path.dirname(os.path.dirname(os.path.abspath(__file__)))
REPO = os.environ.get("VT_REPO", "/repo")
WORK = os.path.join(VERIF, ".work")
CLANG_RES = "/usr/lib/llvm-14/lib/clang/14.0.6/include"
CXXFLAGS = ["-std=c++14", "-fno-access-control", "-I" + os.path.join(REPO, "include"), "-I" + os.path.join(VERIF, "spec"),
            "-I" + os.path.join(VERIF, "units")]
NCPU = int(os.environ.get("VT_CPUS", "16"))
DEFAULT_TIMEOUT = {"quick": 240, "thorough": 900}
MEM_KB = 14 * 1024 * 1024


class Undecided(Exception):
    pass


def log(*a):
    print(*a, file=sys.stderr, flush=True)


def run(cmd, timeout=None, cwd=None, mem=True):
    def lim():
        if mem:
            resource.setrlimit(resource.RLIMIT_AS, (MEM_KB * 1024, MEM_KB * 1024))
    t0 = time.time()
    try:
        p = subprocess.run(cmd, stdout=subprocess.PIPE, stderr=subprocess.PIPE, timeout=timeout, cwd=cwd,
                           preexec_fn=lim)
        return p.returncode, p.stdout.decode("utf-8", "replace"), p.stderr.decode("utf-8", "replace"), time.time() - t0
    except subprocess.TimeoutExpired as e:
        return -9, (e.stdout or b"").decode("utf-8", "replace"), "TIMEOUT", time.time() - t0


# ----------------------------------------------------------------------------- spec files
CLAUSES = ("requires", "ensures", "assigns", "frees")
LOOP_CLAUSES = ("invariant", "assigns", "decreases", "ghost")


class Spec:
    def __init__(self, unit):
        self.unit = unit
        self.contracts = {}   # key -> list of (kind, text)
        self.loops = {}       # (key, k) -> list of (kind, text)
        self.jobs = []        # dict
        self.includes = []
        self.defs = []        # raw C lines placed before the contracts
        self.cxxflags = []
        self.nop2cflags = []


def parse_spec(unit):
    path = os.path.join(VERIF, "units", unit + ".spec")
    sp = Spec(unit)
    gen = path + ".py"
    if os.path.exists(gen):
        # generated side-car: a deterministic script printing the spec text (type loops)
        rc, so, se, dt = run([sys.executable, gen], timeout=60, mem=False)
        if rc != 0:
            raise Undecided("spec generator %s failed: %s" % (gen, se[-800:]))
        raw = so.replace("\\\n", " ")
    elif not os.path.exists(path):
        return sp
    else:
        raw = open(path).read().replace("\\\n", " ")
    cur = None
    kind = None
    for ln, line in enumerate(raw.split("\n"), 1):
        s = line.strip()
        if not s or s.startswith("#"):
            continue
        if not line[0].isspace():
            w, _, rest = s.partition(" ")
            rest = rest.strip()
            if w == "contract":
                kind, cur = "contract", []
                if rest in sp.contracts:
                    raise Undecided("%s:%d duplicate contract %s" % (path, ln, rest))
                sp.contracts[rest] = cur
            elif w == "loop":
                m = re.match(r"(.*)#\s*(\d+)$", rest)
                if not m:
                    raise Undecided("%s:%d loop needs key#index" % (path, ln))
                kind, cur = "loop", []
                sp.loops[(m.group(1).strip(), int(m.group(2)))] = cur
            elif w == "job":
                kind = "job"
                cur = {"name": rest.split()[0], "props": [], "replace": [], "pre": [], "flags": [], "unit": unit,
                       "tier": "quick", "covers": [], "expect_fail": []}
                sp.jobs.append(cur)
            elif w == "c":
                sp.defs.append(rest)
                kind = None
            elif w == "nop2cflags":
                # options of the lowering tool itself (e.g. --hoist=status for loop contracts)
                sp.nop2cflags += rest.split()
                kind = None
            elif w == "cxxflags":
                # extra flags for the lowering only (e.g. the std container models); the native replay
                # build does not get them and so runs against the real library
                sp.cxxflags += [("-I" + os.path.join(VERIF, x[2:])) if x.startswith("-Ispec/") else x for x in rest.split()]
                kind = None
            else:
                raise Undecided("%s:%d unknown block %s" % (path, ln, w))
            continue
        w, _, rest = s.partition(" ")
        rest = rest.strip()
        if kind == "contract":
            if w not in CLAUSES:
                raise Undecided("%s:%d bad contract clause %s" % (path, ln, w))
            cur.append((w, rest))
        elif kind == "loop":
            if w not in LOOP_CLAUSES:
                raise Undecided("%s:%d bad loop clause %s" % (path, ln, w))
            cur.append((w, rest))
        elif kind == "job":
            if w == "props":
                cur["props"] = [x.strip() for x in rest.replace(",", " ").split()]
            elif w in ("enforce", "harness", "census"):
                cur["kind"] = w
                cur["target"] = rest
            elif w == "replace":
                cur["replace"].append(rest)
            elif w == "pre":
                cur["pre"].append(rest)
            elif w == "flags":
                cur["flags"] += rest.split()
            elif w == "unwind":
                parts = rest.split(None, 2)
                cur["unwind"] = int(parts[0])
                cur["unwind_kind"] = parts[1] if len(parts) > 1 else "bounded"
                cur["unwind_note"] = parts[2] if len(parts) > 2 else ""
            elif w == "unwindset":
                sub, n = rest.rsplit(None, 1)
                cur.setdefault("unwindset", []).append((sub, int(n)))
            elif w == "timeout":
                cur["timeout"] = int(rest)
            elif w == "tier":
                cur["tier"] = rest
            elif w == "loops":
                cur["loops"] = True
            elif w == "solver":
                cur["solver"] = rest
            elif w == "note":
                cur["note"] = rest
            elif w == "object_bits":
                cur["object_bits"] = int(rest)
            elif w == "noflag":
                cur.setdefault("noflags", []).append(rest)
            elif w == "define":
                cur.setdefault("goto_cc", []).extend(["-D" + x for x in rest.split()])
            elif w == "goto_cc":
                cur.setdefault("goto_cc", []).extend(rest.split())
            elif w == "nocover":
                cur["nocover"] = True
            else:
                raise Undecided("%s:%d bad job line %s" % (path, ln, w))
        else:
            raise Undecided("%s:%d stray line" % (path, ln))
    for j in sp.jobs:
        if "kind" not in j:
            raise Undecided("%s: job %s has no enforce/harness" % (path, j["name"]))
    return sp


# ----------------------------------------------------------------------------- lowering
class Unit:
    pass


def gen_headers(workdir):
    rc, so, se, dt = run([sys.executable, os.path.join(VERIF, "tools", "gen_prefix.py")], timeout=60, mem=False)
    if rc != 0:
        raise Undecided("docs/format.md prefix table could not be parsed: " + se[-500:])
    open(os.path.join(workdir, "fmt_prefix.h"), "w").write(so)


def lower(unit, workdir, extra_flags=(), tool_flags=()):
    src = os.path.join(VERIF, "units", unit + ".cpp")
    out_c = os.path.join(workdir, unit + ".c")
    out_map = os.path.join(workdir, unit + ".map.json")
    cmd = [os.path.join(VERIF, "tools", "nop2c"), src, "--out=" + out_c, "--map=" + out_map] + list(tool_flags) + ["--"] + list(extra_flags) + CXXFLAGS + ["-I" + workdir, "-I" + CLANG_RES, "-Wno-everything"]
    rc, so, se, dt = run(cmd, timeout=300, mem=False)
    if rc != 0:
        raise Undecided("lowering of unit %s failed (nop2c exit %d) — extraction break, not a violation:\n%s" % (unit, rc, (se or so)[-3000:]))
    u = Unit()
    u.name = unit
    u.c_path = out_c
    u.text = open(out_c).read()
    u.map = json.load(open(out_map))
    u.by_key = {}
    for f in u.map["functions"]:
        u.by_key[f["key"]] = f
    u.by_c = {f["c"]: f for f in u.map["functions"]}
    u.lower_s = dt
    u.protos = {}
    # C signature of every lowered function, from the prototype section
    head = u.text.split("/*@CONTRACTS@*/")[0]
    for m in re.finditer(r"^([^\n;{}]*?\b(\w+)\(([^;{}]*)\));$", head, re.M):
        u.protos[m.group(2)] = (m.group(1), m.group(3))
    return u


def resolve(u, key):
    """key: full C++ signature, or a unique prefix of it up to '(' (stable under body edits)."""
    if key in u.by_key:
        return u.by_key[key]
    cands = [f for k, f in u.by_key.items() if k.split("(")[0] == key]
    if len(cands) == 1:
        return cands[0]
    cands = [f for k, f in u.by_key.items() if k.split("(")[0] == key or k.startswith(key)]
    if len(cands) == 1:
        return cands[0]
    raise Undecided("spec key %r matches %d lowered functions in unit %s (splice must-fire rule): %s" % (
        key, len(cands), u.name, [c["key"] for c in cands][:6]))


def split_params(s):
    out, depth, cur = [], 0, ""
    for ch in s:
        if ch == "(":
            depth += 1
        if ch == ")":
            depth -= 1
        if ch == "," and depth == 0:
            out.append(cur.strip())
            cur = ""
        else:
            cur += ch
    if cur.strip():
        out.append(cur.strip())
    return out


def splice(u, sp, job, workdir):
    """Returns (path of job C file, entry symbol, clause line map, enforced symbol, replaced symbols)."""
    text = u.text
    line_info = {}
    # loop contracts first (they edit bodies)
    used_loops = set()
    if job.get("loops"):
        for (key, k), clauses in sp.loops.items():
            f = resolve(u, key)
            tag = "/*FUNCTION %s*/" % f["c"]
            i = text.find(tag)
            if i < 0:
                raise Undecided("loop contract for %s: function not lowered" % key)
            j = text.find("\n}\n", i)
            marker = "/*LOOP %d*/" % k
            m = text.find(marker, i, j)
            if m < 0:
                raise Undecided("loop contract %s#%d: loop marker missing (must-fire)" % (key, k))
            cl = ""
            ghost = "".join(" /*GHOST*/ " + t for kind, t in clauses if kind == "ghost")
            if ghost:
                b = text.find("{", m)
                text = text[:b + 1] + ghost + text[b + 1:]
            for kind, t in clauses:
                if kind == "ghost":
                    continue
                cl += {"invariant": "__CPROVER_loop_invariant(%s)", "assigns": "__CPROVER_assigns(%s)", "decreases": "__CPROVER_decreases(%s)"}[kind] % t + "\n"
            text = text[:m] + cl + text[m + len(marker):]
            used_loops.add((key, k))
    # contracts as prototypes at the marker
    ctext = '#include "vt_contract.h"\n' + "\n".join(sp.defs) + "\n"
    contract_syms = {}
    needed = set([job["target"]] + job["replace"])
    for key, clauses in sp.contracts.items():
        try:
            f = resolve(u, key)
        except Undecided:
            if key in needed and key == job["target"]:
                raise
            continue  # contract of a function that is not lowered in this unit any more and not enforced here
        if f["c"] not in u.protos:
            raise Undecided("no prototype for %s" % key)
        sig = u.protos[f["c"]][0]
        ctext += "/* contract: %s */\n%s\n" % (key, sig)
        for kind, t in clauses:
            ctext += "__CPROVER_%s(%s)\n" % (kind, t)
        ctext += ";\n"
        contract_syms[f["c"]] = key
    text = text.replace("/*@CONTRACTS@*/", ctext, 1)
    # entry
    enforced = None
    replaced = []
    for r in job["replace"]:
        try:
            f = resolve(u, r)
        except Undecided:
            # the callee is no longer reachable from the lowered code (e.g. the call was removed): there is
            # nothing to replace; the enforced contract is still checked and will say so if that matters
            continue
        if f["c"] not in contract_syms:
            raise Undecided("job %s replaces %s which has no contract" % (job["name"], r))
        replaced.append(f["c"])
    if job["kind"] == "enforce":
        f = resolve(u, job["target"])
        if f["c"] not in contract_syms:
            raise Undecided("job %s enforces %s which has no contract" % (job["name"], job["target"]))
        if not f["body"]:
            raise Undecided("job %s enforces %s which has no body" % (job["name"], job["target"]))
        enforced = f["c"]
        sig, params = u.protos[f["c"]]
        decls, args = [], []
        for n, p in enumerate(split_params(params)):
            if p == "void":
                continue
            # declarator -> a local of the same type named a<n>
            name = f["params"][n]
            d = re.sub(r"\b%s\b(?!.*\b%s\b)" % (re.escape(name), re.escape(name)), "a%d" % n, p, count=1)
            decls.append("  " + d + ";")
            args.append("a%d" % n)
        entry = "vt_entry"
        ret_void = sig.strip().startswith("void ") and "*" not in sig.split(f["c"])[0]
        text += "\nvoid %s(void)\n{\n%s\n%s\n  %s(%s);\n  __CPROVER_assert(0, \"vt_cover: enforce-entry: contract precondition satisfiable and function returns\");\n}\n" % (
            entry, "\n".join(decls), "\n".join("  " + x for x in job["pre"]), f["c"], ", ".join(args))
    else:
        f = resolve(u, job["target"])
        entry = f["c"]
    path = os.path.join(workdir, job["name"] + ".c")
    open(path, "w").write(text)
    # clause line map
    for n, l in enumerate(text.split("\n"), 1):
        if l.startswith("__CPROVER_") or l.startswith("/* contract:"):
            line_info[n] = l
    return path, entry, line_info, enforced, replaced, text


# ----------------------------------------------------------------------------- cbmc
def cbmc_job(u, sp, job, workdir, tier):
    t0 = time.time()
    res = {"job": job["name"], "unit": u.name, "kind": job["kind"], "target": job["target"], "props": job["props"],
           "obligations": [], "status": "UNDECIDED", "reason": "", "solver_s": 0.0, "backend": "", "replaced": job["replace"]}
    try:
        path, entry, line_info, enforced, replaced, text = splice(u, sp, job, workdir)
    except Undecided as e:
        res["reason"] = str(e)
        return res
    timeout = job.get("timeout", DEFAULT_TIMEOUT[tier])
    base = os.path.join(workdir, job["name"])
    inc = ["-I", os.path.join(VERIF, "spec"), "-I", workdir]
    use_dfcc = enforced is not None or replaced or job.get("loops")
    cmdlog = []
    use_gb = use_dfcc or job.get("goto_cc")
    if use_gb:
        cmd = ["goto-cc", "--function", entry, "-o", base + ".a.gb", path] + inc + job.get("goto_cc", [])
        cmdlog.append(" ".join(cmd))
        rc, so, se, dt = run(cmd, timeout=120)
        if rc != 0:
            res["reason"] = "goto-cc failed: " + (se + so)[-2000:]
            return res
    if use_gb and not use_dfcc:
        target = [base + ".a.gb"]
    elif use_dfcc:
        cmd = ["goto-instrument", "--dfcc", entry]
        if enforced:
            cmd += ["--enforce-contract", enforced]
        for r in replaced:
            cmd += ["--replace-call-with-contract", r]
        if job.get("loops"):
            cmd += ["--apply-loop-contracts"]
        cmd += [base + ".a.gb", base + ".b.gb"]
        cmdlog.append(" ".join(cmd))
        rc, so, se, dt = run(cmd, timeout=300)
        if rc != 0:
            res["reason"] = "goto-instrument failed: " + (se + so)[-3000:]
            return res
        target = [base + ".b.gb"]
    else:
        target = [path, "--function", entry] + inc
    cmd = ["cbmc"] + target + ["--bounds-check", "--pointer-check", "--pointer-overflow-check", "--signed-overflow-check",
                               "--undefined-shift-check", "--div-by-zero-check", "--pointer-primitive-check",
                               "--unwinding-assertions", "--drop-unused-functions", "--json-ui", "--trace", "--object-bits", str(job.get("object_bits", 12))]
    cmd = [c for c in cmd if c not in job.get("noflags", [])] + ["--no-" + c[2:] for c in job.get("noflags", [])]
    if "unwind" in job:
        cmd += ["--unwind", str(job["unwind"])]
    if job.get("unwindset"):
        us = []
        for sub, n in job["unwindset"]:
            hit = False
            for f in u.map["functions"]:
                if f["loops"] > 0 and sub in f["key"]:
                    hit = True
                    for k in range(f["loops"]):
                        us.append("%s.%d:%d" % (f["c"], k, n))
            if not hit:
                res["reason"] = "unwindset pattern %r matches no lowered loop (must-fire)" % sub
                return res
        cmd += ["--unwindset", ",".join(us)]
    solver = job.get("solver", "cadical")
    if solver in ("cvc5", "z3"):
        cmd += ["--" + solver]
    elif solver:
        cmd += ["--sat-solver", solver]
    cmd += job["flags"]
    res["backend"] = "cbmc 6.11 / " + ("SMT " + solver if solver in ("cvc5", "z3") else "SAT " + solver)
    cmdlog.append(" ".join(cmd))
    res["cmds"] = cmdlog
    rc, so, se, dt = run(cmd, timeout=timeout)
    res["solver_s"] = round(dt, 2)
    open(base + ".cbmc.json", "w").write(so)
    if rc == -9:
        if dt < timeout - 5:
            # SIGKILL well before the deadline: the kernel's OOM killer (several multi-GB jobs in parallel); the
            # scheduler below runs such jobs once more on their own
            res["reason"] = "cbmc killed after %.0fs (out of memory while running in parallel)" % dt
            res["killed_early"] = True
        else:
            res["reason"] = "cbmc timeout after %ds" % timeout
        return res
    try:
        out = json.loads(so)
    except Exception:
        res["reason"] = "cbmc output unparsable (rc=%d): %s" % (rc, (se + so)[-1500:])
        return res
    results = None
    msgs = []
    for item in out:
        if "result" in item:
            results = item["result"]
        if "messageText" in item:
            msgs.append(item["messageText"])
    if results is None:
        res["reason"] = "cbmc gave no result (rc=%d): %s" % (rc, " | ".join(msgs[-8:]))
        return res
    for m in msgs:
        if "ignoring" in m and "forall" in m or "ignoring" in m and "exists" in m:
            res["reason"] = "quantifier ignored by back end: " + m
            return res
    loop_step = 0
    for r in results:
        loc = r.get("sourceLocation", {})
        desc = r.get("description", "")
        prop = r.get("property", "")
        fn = loc.get("function", "")
        line = int(loc.get("line", 0) or 0)
        o = {"id": prop, "description": desc, "status": r["status"], "function": u.by_c.get(fn, {}).get("key", fn),
             "line": line, "file": os.path.basename(loc.get("file", ""))}
        if line in line_info:
            o["clause"] = line_info[line]
        o["cover"] = desc.startswith("vt_cover:")
        if "loop_invariant_step" in prop or "invariant after step" in desc.lower() or "preserved" in desc.lower():
            loop_step += 1
        if r["status"] == "FAILURE" and "trace" in r:
            o["trace_vals"] = trace_values(r["trace"])
            o["trace_tail"] = trace_tail(r["trace"])
            o["prestate"] = trace_prestate(r["trace"])
        res["obligations"].append(o)
    errs = [o for o in res["obligations"] if o["status"] not in ("SUCCESS", "FAILURE")]
    hard = [o for o in res["obligations"] if o["status"] == "FAILURE" and not o["description"].startswith("vt_cover:")]
    unw = [o for o in hard if ".unwind." in o["id"] or "unwinding assertion" in o["description"]]
    if unw and len(unw) == len(hard):
        res["reason"] = "unwinding bound insufficient (not a violation): " + "; ".join(o["id"] for o in unw[:4])
        return res
    if unw:
        # other obligations fail with a counterexample inside the bound: those are definite; the unwinding
        # assertion itself is not reported as a violation
        res["obligations"] = [o for o in res["obligations"] if o not in unw]
        res["note_unwind"] = [o["id"] for o in unw]
    if errs and not hard:
        res["reason"] = "back end returned status %s for %d obligations (solver error / resource limit), e.g. %s" % (errs[0]["status"], len(errs), errs[0]["id"])
        return res
    if errs and hard:
        # CBMC reports obligations downstream of a definite failure as UNKNOWN; the definite failures stand
        res["obligations"] = [o for o in res["obligations"] if o["status"] in ("SUCCESS", "FAILURE")]
        res["note_unknown"] = len(errs)
    nobody = [o for o in res["obligations"] if ".no-body." in o["id"]]
    if nobody:
        res["reason"] = "lowered code calls a function without body or contract: " + "; ".join(o["description"] for o in nobody[:5])
        return res
    if job.get("loops") and loop_step == 0:
        res["reason"] = "loop contract silently dropped: no loop-invariant step obligation generated"
        return res
    real = [o for o in res["obligations"] if not o["cover"]]
    covers = [o for o in res["obligations"] if o["cover"]]
    if not real:
        res["reason"] = "vacuous job: zero obligations"
        return res
    # a cover *name* is reached when at least one cover point carrying it is reachable with its condition true
    reached = set(o["description"] for o in covers if o["status"] == "FAILURE")
    unreached = sorted(set(o["description"] for o in covers) - reached)
    failed = [o for o in real if o["status"] != "SUCCESS"]
    if unreached and not failed:
        res["reason"] = "vacuity guard: cover point(s) unreachable: " + "; ".join(unreached)
        res["status"] = "UNDECIDED"
        return res
    res["status"] = "FAIL" if failed else "PASS"
    res["wall_s"] = round(time.time() - t0, 2)
    return res


def trace_values(trace):
    vals = []
    for st in trace:
        if st.get("stepType") == "assignment" and st.get("lhs") == "vt_trace_val" and not st.get("hidden"):
            v = st.get("value", {})
            b = v.get("binary")
            if b is not None:
                vals.append(int(b, 2))
            else:
                try:
                    vals.append(int(v.get("data", "0")))
                except Exception:
                    vals.append(0)
    return vals


def trace_prestate(trace):
    """argument values and the fields of the objects is_fresh created for an enforced contract"""
    out = []
    for st in trace:
        if st.get("stepType") != "assignment":
            continue
        fn = st.get("sourceLocation", {}).get("function", "")
        lhs = st.get("lhs", "")
        v = st.get("value", {})
        d = v.get("data")
        if d is None or "$pad" in lhs:
            continue
        if (fn == "vt_entry" and re.match(r"a\d+$", lhs)) or (fn == "__CPROVER_contracts_is_fresh" and lhs.startswith("dynamic_object") and "." in lhs) or \
                (lhs in ("vt_k", "vt_n") and not st.get("hidden")):
            out.append("%s = %s" % (lhs, d))
    return out[:80]


def trace_tail(trace, n=25):
    out = []
    for st in trace:
        if st.get("stepType") == "assignment" and not st.get("hidden"):
            lhs = st.get("lhs", "")
            if lhs.startswith("__CPROVER") or "dfcc" in lhs or lhs.startswith("goto_symex"):
                continue
            v = st.get("value", {})
            out.append("%s = %s" % (lhs, v.get("data", v.get("name", "?"))))
        elif st.get("stepType") == "failure":
            out.append("FAILURE: " + st.get("reason", ""))
    return out[-n:]


# ----------------------------------------------------------------------------- storage census (C19)
def census_job(u, job, workdir, all_units):
    """Structural obligations over nop2c's storage census: under <repo>/include/nop every variable with static or
    thread storage duration is immutable (const/constexpr) or is ThreadLocal's function-local `static thread_local`
    slot; distinct (T, Slot) instantiations are distinct symbols; no lowered libnop function of any unit references
    any other global."""
    t0 = time.time()
    root = os.path.join(REPO, "include", "nop") + os.sep
    res = {"job": job["name"], "unit": u.name, "kind": "census", "target": job["target"], "props": job["props"], "obligations": [],
           "status": "UNDECIDED", "reason": "", "solver_s": 0.0, "backend": "nop2c storage census (clang AST)", "replaced": [], "cmds": ["nop2c --map (census)"]}
    ents = [c for c in u.map.get("census", []) if os.path.abspath(c["file"]).startswith(root)]
    def ob(i, desc, ok):
        res["obligations"].append({"id": "census.%s" % i, "description": desc, "status": "SUCCESS" if ok else "FAILURE", "function": "storage census", "line": 0, "file": "", "cover": False})
    tls = [c for c in ents if c["thread_local"] and c["static_local"] and c["file"].endswith("types/thread_local.h")]
    ob("vacuity", "the census sees the ThreadLocal slots instantiated by the unit (>= 3 instantiations)", len(tls) >= 3)
    for n, c in enumerate(ents):
        ok = c["const"] or (c in tls and c["cxx"] == "value")
        ob("var.%d" % n, "%s %s at %s:%d is immutable or a ThreadLocal thread_local slot (thread_local=%s static_local=%s const=%s)" % (
            c["type"], c["cxx"], c["file"].replace(REPO + "/", ""), c["line"], c["thread_local"], c["static_local"], c["const"]), ok)
    syms = [c["symbol"] for c in tls]
    ob("distinct", "distinct (T, Slot) instantiations of ThreadLocal are distinct objects (%d symbols)" % len(set(syms)), len(set(syms)) == len(syms))
    n = 0
    for name, uu in sorted(all_units.items()):
        for g in uu.map.get("globals", []):
            if os.path.abspath(g["loc"].rsplit(":", 1)[0]).startswith(os.path.join(REPO, "include") + os.sep):
                ok = g["thread_local"] and g["static_local"] and "thread_local.h" in g["loc"]
                ob("ref.%d" % n, "unit %s: lowered libnop code references global %s (%s) — only ThreadLocal's thread_local slot may be referenced" % (name, g["cxx"], g["loc"]), ok)
                n += 1
    ob("units", "the lowered libnop functions of all %d units were scanned for references to globals" % len(all_units), len(all_units) >= 5)
    res["status"] = "FAIL" if any(o["status"] != "SUCCESS" for o in res["obligations"]) else "PASS"
    res["solver_s"] = round(time.time() - t0, 2)
    return res


# ----------------------------------------------------------------------------- native replay
def native_build(unit, workdir, sanitize=True):
    exe = os.path.join(workdir, unit + ".native")
    if os.path.exists(exe):
        return exe
    if not os.path.exists(os.path.join(workdir, "fmt_prefix.h")):
        gen_headers(workdir)
    cmd = ["g++", "-O0", "-g", "-DVT_NATIVE", "-w"] + CXXFLAGS + ["-I" + workdir] + \
          (["-fsanitize=address,undefined", "-fno-sanitize-recover=undefined", "-fno-omit-frame-pointer"] if sanitize else []) + \
          [os.path.join(VERIF, "units", unit + ".cpp"), os.path.join(VERIF, "spec", "vt_native.cpp"), "-o", exe]
    rc, so, se, dt = run(cmd, timeout=600, mem=False)
    if rc != 0:
        raise Undecided("native build of %s failed: %s" % (unit, se[-2000:]))
    return exe


def native_replay(exe, harness, vals, replay_path):
    """Runs the real C++ harness on the counterexample values.  Returns (verdict, transcript):
    'reproduced' (a vt_check failed or a sanitizer fired), 'passed', 'outside' (assume false)."""
    env = dict(os.environ)
    env["ASAN_OPTIONS"] = "detect_leaks=0:abort_on_error=0:exitcode=99"
    env["UBSAN_OPTIONS"] = "print_stacktrace=1:halt_on_error=1:exitcode=98"
    p = subprocess.run([exe, harness, replay_path], stdout=subprocess.PIPE, stderr=subprocess.STDOUT, env=env, timeout=120)
    out = p.stdout.decode("utf-8", "replace")
    if p.returncode == 77:
        return "outside", out
    if p.returncode == 0:
        return "passed", out
    return "reproduced", out


# ----------------------------------------------------------------------------- lowering self-test
def selftest(unit_names, runs, seed):
    """Differential validation of nop2c: every harness of the unit is run natively twice on the same random
    draws — once as the original C++ (g++) and once as the lowered C (gcc) — and the sets of failed vt_check
    names and the exit status must agree."""
    import random
    workdir = os.path.join(WORK, "selftest-%d" % os.getpid())
    shutil.rmtree(workdir, ignore_errors=True)
    os.makedirs(workdir)
    rc, so, se, dt = run([os.path.join(VERIF, "tools", "build.sh")], timeout=900, mem=False)
    gen_headers(workdir)
    rng = random.Random(seed)
    total = disagreements = 0
    programs = 0
    samples = []
    try:
        for unit in unit_names:
            sp = parse_spec(unit)
            if sp.cxxflags:
                log("  selftest: unit %s uses std models when lowered; the native C++ side uses the real library — compared anyway" % unit)
            u = lower(unit, workdir, sp.cxxflags, sp.nop2cflags)
            harnesses = [f["c"] for f in u.map["functions"] if f["main"] and f["body"] and f["c"].startswith("h_")]
            if not harnesses:
                continue
            table = "\nstruct vt_harness { const char* name; void (*fn)(void); };\nstruct vt_harness vt_harness_table[] = {%s {0, 0}};\n" % "".join('{"%s", %s},' % (h, h) for h in harnesses)
            cpath = os.path.join(workdir, unit + ".lowered.c")
            open(cpath, "w").write(u.text.replace("/*@CONTRACTS@*/", "") + table)
            exe_c = os.path.join(workdir, unit + ".lowered")
            rc, so, se, dt = run(["gcc", "-O0", "-w", "-DVT_NATIVE_C", "-I", os.path.join(VERIF, "spec"), "-I", workdir, cpath, os.path.join(VERIF, "spec", "vt_native_c.c"), "-o", exe_c], timeout=600, mem=False)
            if rc != 0:
                raise Undecided("selftest: gcc on lowered %s failed: %s" % (unit, se[-1500:]))
            exe_cpp = native_build(unit, workdir, sanitize=False)
            for h in harnesses:
                programs += 1
                for k in range(runs):
                    rp = os.path.join(workdir, "r.replay")
                    mode = k % 3
                    with open(rp, "w") as fh:
                        for i in range(400):
                            v = rng.getrandbits(64) if mode == 0 else (rng.choice([0, 1, 2, 3, 127, 128, 255, 256, 65535, 65536, 2**31 - 1, 2**31, 2**32 - 1, 2**63, 2**64 - 1]) if mode == 1 else rng.getrandbits(rng.choice([1, 2, 3, 8])))
                            fh.write("%d\n" % v)
                    outs = []
                    for exe in (exe_cpp, exe_c):
                        p = subprocess.run([exe, h, rp], stdout=subprocess.PIPE, stderr=subprocess.STDOUT, timeout=60)
                        failed = sorted(set(l for l in p.stdout.decode("utf-8", "replace").split("\n") if l.startswith("CHECK FAILED")))
                        outs.append((p.returncode if p.returncode in (0, 1, 77) else "crash%d" % p.returncode, failed))
                    total += 1
                    if outs[0] != outs[1]:
                        disagreements += 1
                        log("  selftest DISAGREE unit=%s harness=%s: c++=%s lowered=%s" % (unit, h, outs[0], outs[1]))
                        shutil.copy(rp, os.path.join(VERIF, "replays", "selftest.%s.%s.replay" % (unit, h)))
                    elif len(samples) < 12:
                        samples.append({"unit": unit, "harness": h, "outcome": str(outs[0][0]), "failed_checks": outs[0][1][:2]})
    finally:
        shutil.rmtree(workdir, ignore_errors=True)
    return programs, total, disagreements, samples


# ----------------------------------------------------------------------------- driver
def all_units_names():
    return all_units()


def all_units():
    return sorted(set(f[:-5] for f in os.listdir(os.path.join(VERIF, "units")) if f.endswith(".spec")) |
                  set(f[:-8] for f in os.listdir(os.path.join(VERIF, "units")) if f.endswith(".spec.py")))


def load_known():
    p = os.path.join(VERIF, "known_findings.json")
    if not os.path.exists(p):
        return []
    return json.load(open(p)).get("findings", [])


def match_known(known, prop, job, o):
    for k in known:
        if k.get("status") == "fixed":
            continue
        if k["property"] != prop or k["job"] != job["job"]:
            continue
        if re.search(k["obligation"], o["id"] + " " + o["description"] + " " + o.get("clause", "")):
            return k
    return None


def check(prop, tier, only_jobs=None, keep=False):
    write_evidence.only_jobs = only_jobs
    t0 = time.time()
    seed = int(os.environ.get("VERIF_SEED", "0") or 0)
    workdir = os.path.join(WORK, "%s-%d" % (prop, os.getpid()))
    shutil.rmtree(workdir, ignore_errors=True)
    os.makedirs(workdir)
    rc, so, se, dt = run([os.path.join(VERIF, "tools", "build.sh")], timeout=900, mem=False)
    if rc != 0:
        print("UNDECIDED property=%s nop2c build failed: %s" % (prop, se[-500:]))
        return 2
    undecided = []
    jobs = []
    units = {}
    specs = {}
    try:
        gen_headers(workdir)
    except Undecided as e:
        undecided.append(str(e))
    for unit in all_units():
        try:
            sp = parse_spec(unit)
        except Undecided as e:
            undecided.append(str(e))
            continue
        mine = [j for j in sp.jobs if prop in j["props"] and (tier == "thorough" or j["tier"] == "quick")]
        if only_jobs:
            mine = [j for j in mine if j["name"] in only_jobs]
        if os.environ.get("VT_JOB_FILTER"):
            mine = [j for j in mine if re.search(os.environ["VT_JOB_FILTER"], j["name"])]
        if not mine:
            continue
        specs[unit] = sp
        jobs += mine
    # lower the needed units in parallel
    with concurrent.futures.ThreadPoolExecutor(NCPU) as ex:
        futs = {ex.submit(lower, unit, workdir, specs[unit].cxxflags, specs[unit].nop2cflags): unit for unit in specs}
        for f in concurrent.futures.as_completed(futs):
            try:
                units[futs[f]] = f.result()
            except Undecided as e:
                undecided.append(str(e))
    results = []
    census_jobs = [j for j in jobs if j["kind"] == "census" and j["unit"] in units]
    if census_jobs:
        lowered_all = dict(units)
        with concurrent.futures.ThreadPoolExecutor(NCPU) as ex:
            futs = {}
            for unit in all_units_names():
                if unit not in lowered_all:
                    try:
                        spx = parse_spec(unit)
                    except Undecided as e:
                        undecided.append(str(e))
                        continue
                    futs[ex.submit(lower, unit, workdir, spx.cxxflags, spx.nop2cflags)] = unit
            for f in concurrent.futures.as_completed(futs):
                try:
                    lowered_all[futs[f]] = f.result()
                except Undecided as e:
                    undecided.append(str(e))
        for j in census_jobs:
            r = census_job(units[j["unit"]], j, workdir, lowered_all)
            results.append(r)
            log("  [%s] %-34s %-9s %4d obligations, %d failed" % (prop, r["job"], r["status"], len(r["obligations"]), len([o for o in r["obligations"] if o["status"] != "SUCCESS"])))
    with concurrent.futures.ThreadPoolExecutor(NCPU) as ex:
        futs = [ex.submit(cbmc_job, units[j["unit"]], specs[j["unit"]], j, workdir, tier) for j in jobs if j["unit"] in units and j["kind"] != "census"]
        for f in concurrent.futures.as_completed(futs):
            r = f.result()
            results.append(r)
            nfail = len([o for o in r["obligations"] if o["status"] != "SUCCESS" and not o["cover"]])
            log("  [%s] %-34s %-9s %4d obligations, %d failed, %.1fs %s" % (prop, r["job"], r["status"], len([o for o in r["obligations"] if not o["cover"]]), nfail, r["solver_s"], r["reason"][:300]))
    # jobs the OOM killer took while many ran side by side: once more, one at a time
    retry = [r for r in results if r.get("killed_early")]
    for r0 in retry:
        j = [x for x in jobs if x["name"] == r0["job"]][0]
        r = cbmc_job(units[j["unit"]], specs[j["unit"]], j, workdir, tier)
        results[results.index(r0)] = r
        nfail = len([o for o in r["obligations"] if o["status"] != "SUCCESS" and not o["cover"]])
        log("  [%s] %-34s %-9s %4d obligations, %d failed, %.1fs %s (re-run alone)" % (prop, r["job"], r["status"], len([o for o in r["obligations"] if not o["cover"]]), nfail, r["solver_s"], r["reason"][:300]))
    results.sort(key=lambda r: r["job"])
    known = load_known()
    violations = []
    known_hits = []
    os.makedirs(os.path.join(VERIF, "replays", prop), exist_ok=True)
    for r in results:
        if r["status"] == "UNDECIDED":
            undecided.append("job %s: %s" % (r["job"], r["reason"]))
            continue
        if r["status"] != "FAIL":
            continue
        spjob = [j for j in jobs if j["name"] == r["job"]][0]
        for o in r["obligations"]:
            if o["cover"] or o["status"] == "SUCCESS":
                continue
            k = match_known(known, prop, r, o)
            replay_path = os.path.join(VERIF, "replays", prop, re.sub(r"[^A-Za-z0-9_.-]", "_", r["job"] + "." + o["id"]) + ".replay")
            verdict, transcript = "none", ""
            harness = None
            if r["kind"] == "harness":
                harness = units[r["unit"]].by_key.get(r["target"], resolve(units[r["unit"]], r["target"]))["c"]
            with open(replay_path, "w") as fh:
                fh.write("# replay file written by tools/vt.py\n")
                fh.write("# property: %s\n# job: %s (unit %s, %s %s)\n" % (prop, r["job"], r["unit"], r["kind"], r["target"]))
                fh.write("# failed obligation: %s\n# description: %s\n# in: %s (lowered line %s)\n" % (o["id"], o["description"], o["function"], o["line"]))
                if "clause" in o:
                    fh.write("# contract clause: %s\n" % o["clause"])
                fh.write("# harness: %s\n" % (harness or "-"))
                for v in o.get("trace_vals", []):
                    fh.write("%d\n" % v)
                if o.get("prestate"):
                    fh.write("# --- counterexample pre-state (arguments a<i> and the objects is_fresh created) ---\n")
                    for t in o["prestate"]:
                        fh.write("#   %s\n" % t)
                fh.write("# --- verifier trace (tail) ---\n")
                for t in o.get("trace_tail", []):
                    fh.write("#   %s\n" % t)
            ghost_only = "(ghost)" in o["description"]  # decided on ghost state of a model: nothing for the real code to reproduce
            if harness and not k and not ghost_only:
                try:
                    exe = native_build(r["unit"], workdir)
                    verdict, transcript = native_replay(exe, harness, o.get("trace_vals", []), replay_path)
                except Undecided as e:
                    verdict, transcript = "error", str(e)
                with open(replay_path, "a") as fh:
                    fh.write("# --- native replay on the real C++ code: %s ---\n" % verdict)
                    for l in transcript.split("\n")[:60]:
                        fh.write("#   %s\n" % l)
            item = {"job": r["job"], "obligation": o["id"], "description": o["description"], "function": o["function"], "clause": o.get("clause", ""),
                    "replay": replay_path, "native": verdict}
            if k:
                known_hits.append((k, item))
            elif verdict in ("passed", "outside") :
                undecided.append("job %s obligation %s: CBMC counterexample does not reproduce on the real code (%s) — lowering/model disagreement, machinery defect; see %s" % (r["job"], o["id"], verdict, replay_path))
            else:
                violations.append(item)
    # ---------------- lowering validation (thorough tier): the lowered C and the original C++ of every harness of the
    # units involved, run natively on the same random draws, must agree on every vt_check
    selftest_info = None
    if tier == "thorough" and results:
        st_units = sorted(set(r["unit"] for r in results if r["kind"] == "harness") - set(["io", "census"]))
        if st_units:
            try:
                programs, total, dis, _ = selftest(st_units, 6, seed or 1)
                selftest_info = {"units": st_units, "harnesses": programs, "paired_executions": total, "disagreements": dis}
                if dis:
                    undecided.append("nop2c self-test: %d disagreement(s) between the lowered C and the original C++ (see replays/selftest.*)" % dis)
            except Undecided as e:
                undecided.append(str(e))
    # ---------------- evidence
    wall = time.time() - t0
    write_evidence(prop, tier, seed, results, jobs, units, violations, known_hits, undecided, wall, selftest_info)
    printed = set()
    for k, item in known_hits:
        if k["id"] not in printed:
            print("KNOWN-FINDING: property=%s %s" % (prop, k["what"]))
            printed.add(k["id"])
    for v in violations:
        tail = " no-failing-input-found" if v["native"] in ("none", "error") else ""
        print("VIOLATION property=%s replay=%s%s" % (prop, v["replay"], tail))
        log("   obligation %s in %s: %s %s" % (v["obligation"], v["function"], v["description"], v["clause"]))
    for u_ in undecided:
        log("UNDECIDED: " + u_[:1500])
    if not keep:
        shutil.rmtree(workdir, ignore_errors=True)
    npass = len([r for r in results if r["status"] == "PASS"])
    log("[%s] %d jobs: %d pass, %d fail, %d undecided; %d violations, %d known findings; %.1fs" % (
        prop, len(results), npass, len([r for r in results if r["status"] == "FAIL"]), len(undecided), len(violations), len(printed), wall))
    if violations:
        return 1
    if undecided or not results:
        print("UNDECIDED property=%s (%d issue(s); not a violation)" % (prop, len(undecided) or 1))
        return 2
    return 0


def write_evidence(prop, tier, seed, results, jobs, units, violations, known_hits, undecided, wall, selftest_info=None):
    man = json.load(open(os.path.join(VERIF, "MANIFEST.json")))
    level = "proof"
    for c in man["checks"]:
        if c["property_id"] == prop:
            level = c["level_claimed"]["category"]
    obligations = discharged = 0
    bounded = []
    fns = {}
    jl = []
    samples = []
    trusted = set()
    for r in results:
        j = [x for x in jobs if x["name"] == r["job"]][0]
        real = [o for o in r["obligations"] if not o["cover"]]
        is_bounded = j.get("unwind_kind", "") == "bounded"
        ent = {"job": r["job"], "unit": r["unit"], "kind": r["kind"], "target": r["target"], "replaced_callees": r["replaced"], "backend": r["backend"],
               "solver_s": r["solver_s"], "obligations": len(real), "failed": len([o for o in real if o["status"] != "SUCCESS"]),
               "covers_reached": len([o for o in r["obligations"] if o["cover"]]), "status": r["status"]}
        if "unwind" in j:
            ent["unwind"] = j["unwind"]
            ent["unwind_kind"] = j.get("unwind_kind")
            ent["unwind_note"] = j.get("unwind_note", "")
        if j.get("loops"):
            ent["loop_contracts"] = True
        if j.get("note"):
            ent["note"] = j["note"]
        if r["reason"]:
            ent["reason"] = r["reason"][:500]
        jl.append(ent)
        if is_bounded:
            bounded.append({"job": r["job"], "bound": "--unwind %d" % j["unwind"], "note": j.get("unwind_note", ""), "obligations": len(real)})
        else:
            obligations += len(real)
            discharged += len([o for o in real if o["status"] == "SUCCESS"])
        u = units.get(r["unit"])
        if r["kind"] == "enforce" and u:
            f = resolve(u, r["target"])
            fns[f["key"]] = {"cxx": f["key"], "c_symbol": f["c"], "source": f["loc"], "via": "enforced contract (job %s)" % r["job"]}
        for rep in r["replaced"]:
            if u:
                try:
                    f = resolve(u, rep)
                except Undecided:
                    continue
                if not f["body"]:
                    trusted.add("assumed contract on body-less function %s" % f["key"])
        if u:
            seen = set()
            for o in real:
                k = o["function"]
                if k in seen or k in fns:
                    continue
                seen.add(k)
                f = u.by_key.get(k)
                if f and "/repo/" in f["loc"]:
                    fns[k] = {"cxx": k, "c_symbol": f["c"], "source": f["loc"], "via": "obligations inside lowered body (job %s)" % r["job"]}
        for o in real[:2] + [o for o in real if "postcondition" in o["id"] or o["description"].startswith("vt_check")][:3]:
            if len(samples) < 40:
                samples.append({"job": r["job"], "obligation": o["id"], "text": o["description"], "in": o["function"], "status": o["status"], "clause": o.get("clause", "")})
    # mechanical scan of what the lowered units of this run actually contain
    scan = set()
    assumes = set()
    for uname in sorted(set(r["unit"] for r in results)):
        uu = units.get(uname)
        if not uu:
            continue
        t = uu.text
        if "g_model_alloc_bytes" in t:
            scan.add("ASSUMED model of std::vector / basic_string / map / unordered_map (spec/stdmodel, capacity 3 elements / 6 characters) used by unit %s: results that depend on it are bounded" % uname)
        if "SpecIStream" in t or "SpecOStream" in t:
            scan.add("ASSUMED model of the iostream interface (spec/stream_model.h, written from [istream.unformatted]/[ostream.unformatted]) used by unit %s; refutations are replayed on the real std::stringstream / std::fstream" % uname)
        if "vt_fd_source" in t or "vt_fd_sink" in t:
            scan.add("ASSUMED contract of read(2)/write(2)/close(2) (spec/posix_model.h: EINTR once, EIO, EOF, short transfers) used by unit %s" % uname)
        if "__CPROVER_uninterpreted" in t:
            scan.add("SIPROUND abstracted as an uninterpreted function in the Compute jobs (sound given the separately proved Round contract)")
        for m in re.finditer(r"VT_ASSUME\((.{0,140})", t):
            assumes.add(m.group(1).split(");")[0][:120])
    assumptions = sorted(scan) + [
        "verified text is C produced on this run by tools/nop2c from clang's AST of the instantiated libnop templates in /repo (not hand-written); dropped by the lowering: constexpr/noexcept/static_assert/access control/SFINAE, const qualifiers, exceptions (libnop throws nowhere), empty-base layout",
        "little-endian x86-64 LP64 data model; unsigned wrap-around is not flagged by itself (defined behaviour) — contracts state the mathematical facts instead",
        "CBMC 6.11.0 / goto-instrument --dfcc are trusted, as are clang 14's overload resolution, template instantiation and constant evaluation",
        "type quantifier: the instantiations listed under functions_under_contract (INST); composites rely on element contracts (modular composition)",
    ] + sorted(trusted)
    cov = {
        "obligations": obligations, "discharged": discharged,
        "checker_cmd": "tools/vt.py check %s --tier %s  (per job: nop2c -> goto-cc -> goto-instrument --dfcc --enforce-contract/--replace-call-with-contract [--apply-loop-contracts] -> cbmc --bounds-check --pointer-check --pointer-overflow-check --signed-overflow-check --undefined-shift-check --unwinding-assertions)" % (prop, tier),
        "trusted_base": sorted(trusted) + ["tools/nop2c lowering (validated by native replay of counterexamples and the mutation smoke tests)", "spec/*.h reference models (SpecReader/SpecWriter proved against their own contracts)"],
        "functions_under_contract": sorted(fns.values(), key=lambda x: x["cxx"]),
        "jobs": jl, "bounded": bounded, "samples": samples or [{"note": "no obligations"}],
        "harness_assumes": sorted(assumes)[:60],
        "nop2c_selftest": selftest_info or "thorough tier only",
        "undecided": undecided[:20],
        "known_findings_hit": sorted(set(k["id"] for k, _ in known_hits)),
        "violations": [{"job": v["job"], "obligation": v["obligation"], "replay": v["replay"], "native": v["native"]} for v in violations],
        "solver_seconds_total": round(sum(r["solver_s"] for r in results), 1),
        "explanation": "contract-based deductive verification of lowered real code; see jobs[]",
        "evaluations": len(results), "distinct_nontrivial": len([r for r in results if r["status"] == "PASS" and r["obligations"]]),
        "rule": "one evaluation = one CBMC job (a function under an enforced contract, or a lemma harness over contracts); non-trivial = has >=1 obligation and every vacuity cover reached",
    }
    ev = {"property_id": prop, "tier": tier, "seed": seed, "level": level, "coverage": cov, "assumptions": assumptions,
          "wall_s": round(wall, 1), "violations": len(violations)}
    # partial / development runs (job filters, scratch repositories, seeded-change tests) must not overwrite the
    # committed evidence of the full check
    partial = bool(os.environ.get("VT_JOB_FILTER") or os.environ.get("VT_SCRATCH_EVIDENCE") or os.environ.get("VT_REPO") or getattr(write_evidence, "only_jobs", None))
    edir = os.path.join(WORK, "evidence-partial") if partial else os.path.join(VERIF, "evidence")
    os.makedirs(edir, exist_ok=True)
    json.dump(ev, open(os.path.join(edir, prop + ".json"), "w"), indent=1)


def main():
    a = sys.argv[1:]
    if not a:
        print(__doc__)
        return 2
    if a[0] == "check":
        prop = a[1]
        tier = os.environ.get("VERIF_TIER", "quick")
        only = None
        keep = False
        i = 2
        while i < len(a):
            if a[i] == "--tier":
                tier = a[i + 1]; i += 2
            elif a[i] == "--jobs":
                only = a[i + 1].split(","); i += 2
            elif a[i] == "--keep":
                keep = True; i += 1
            else:
                i += 1
        if tier not in ("quick", "thorough"):
            tier = "quick"
        return check(prop, tier, only, keep)
    if a[0] == "selftest":
        units_ = a[1].split(",") if len(a) > 1 and a[1] != "all" else [u_ for u_ in all_units() if u_ not in ("io", "census")]
        runs_ = int(a[2]) if len(a) > 2 else 30
        os.makedirs(os.path.join(VERIF, "replays"), exist_ok=True)
        try:
            programs, total, dis, samples = selftest(units_, runs_, int(os.environ.get("VERIF_SEED", "1") or 1))
        except Undecided as e:
            print("UNDECIDED selftest: %s" % e)
            return 2
        print("nop2c selftest: %d harnesses, %d paired executions, %d disagreements" % (programs, total, dis))
        json.dump({"harnesses": programs, "paired_executions": total, "disagreements": dis, "samples": samples}, open(os.path.join(VERIF, "evidence", "nop2c_selftest.json"), "w"), indent=1)
        return 0 if dis == 0 else 2
    if a[0] == "list":
        for unit in all_units():
            sp = parse_spec(unit)
            for j in sp.jobs:
                print("%-10s %-30s %-8s %-8s %s" % (unit, j["name"], ",".join(j["props"]), j["tier"], j["target"]))
        return 0
    if a[0] == "replay":
        path = a[1]
        meta = {}
        for l in open(path):
            m = re.match(r"# (job|harness|property): (\S+)(?: \(unit (\S+),)?", l)
            if m:
                meta[m.group(1)] = m.group(2)
                if m.group(3):
                    meta["unit"] = m.group(3)
        if meta.get("harness", "-") == "-":
            print("replay file names a contract obligation without a callable input (no-failing-input-found); see its contents")
            print(open(path).read())
            return 0
        workdir = os.path.join(WORK, "replay-%d" % os.getpid())
        os.makedirs(workdir, exist_ok=True)
        try:
            exe = native_build(meta["unit"], workdir)
            vals = [int(l) for l in open(path) if re.match(r"^\d+$", l.strip())]
            verdict, out = native_replay(exe, meta["harness"], vals, path)
            print(out)
            print("replay verdict:", verdict)
        finally:
            shutil.rmtree(workdir, ignore_errors=True)
        return 0 if verdict != "reproduced" else 1
    print(__doc__)
    return 2


if __name__ == "__main__":
    sys.exit(main())
