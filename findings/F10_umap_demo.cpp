#include <array>
#include <cstdio>
#include <map>
#include <unordered_map>
#include <nop/serializer.h>
#include <nop/base/map.h>
#include <nop/utility/pedantic_buffer_reader.h>
#include <nop/utility/pedantic_buffer_writer.h>
#include <nop/traits/is_fungible.h>
int main() {
  static_assert(nop::IsFungible<std::map<std::uint8_t, std::int16_t>, std::unordered_map<std::uint8_t, std::int16_t>>::value, "");
  std::unordered_map<std::uint8_t, std::int16_t> u; u.emplace(3, 30); u.emplace(5, 50);
  std::uint8_t b1[64], b2[64];
  nop::Serializer<nop::PedanticBufferWriter> s1{b1, sizeof b1}; s1.Write(u); std::size_t n1 = s1.writer().size();
  std::map<std::uint8_t, std::int16_t> m; nop::Deserializer<nop::PedanticBufferReader> d{b1, n1}; auto st = d.Read(&m);
  nop::Serializer<nop::PedanticBufferWriter> s2{b2, sizeof b2}; s2.Write(m); std::size_t n2 = s2.writer().size();
  printf("read ok=%d\nunordered_map bytes:", (int)(bool)st); for (std::size_t i = 0; i < n1; i++) printf(" %02x", b1[i]);
  printf("\nmap re-encoded     :"); for (std::size_t i = 0; i < n2; i++) printf(" %02x", b2[i]); printf("\n");
  return !(n1 == n2 && std::equal(b1, b1 + n1, b2));
}
