#include <array>
#include <limits>
#include <cstdint>
#include <cstdio>
#include <nop/serializer.h>
#include <nop/table.h>
#include <nop/types/optional.h>
#include <nop/base/optional.h>
#include <nop/utility/buffer_reader.h>
#include <nop/utility/buffer_writer.h>
struct T1 {
  nop::Entry<nop::Optional<int>, 0> a;
  nop::Entry<std::uint8_t, 1> b;
  NOP_TABLE_HASH(5, T1, a, b);
};
int main() {
  T1 w; w.a = nop::Optional<int>(7); w.b = 9;
  std::uint8_t buf[64];
  nop::BufferWriter bw(buf, sizeof buf);
  nop::Serializer<nop::BufferWriter*> s{&bw};
  auto st = s.Write(w);
  printf("write ok=%d size=%zu:", (int)(bool)st, bw.size());
  for (size_t i = 0; i < bw.size(); i++) printf(" %02x", buf[i]);
  printf("\n");
  nop::BufferReader br(buf, bw.size());
  nop::Deserializer<nop::BufferReader*> d{&br};
  T1 r;
  auto rs = d.Read(&r);
  printf("read ok=%d a.empty=%d b.empty=%d\n", (int)(bool)rs, (int)r.a.empty(), (int)r.b.empty());
  if (!r.a.empty()) printf("a holds optional empty=%d val=%d\n", (int)r.a.get().empty(), r.a.get().empty() ? -1 : r.a.get().get());
  // duplicate entry a twice
  return 0;
}
