// C15 — handles travel out of band intact; UniqueHandle closes exactly once.
#include <array>
#include <limits>
#include <new>
#include <nop/base/encoding.h>
#include <nop/base/handle.h>
#include <nop/base/members.h>
#include <nop/base/optional.h>
#include <nop/base/variant.h>
#include <nop/base/serializer.h>
#include <nop/base/table.h>
#include <nop/structure.h>
#include <nop/table.h>
#include <nop/types/handle.h>

#include "lemmas.h"

namespace vt {

// ------------------------------------------------------------------ UniqueHandle lifetime
static int g_closed[4];  // how often resource i was closed (zero-initialised)
static int g_bad_close = 0;             // closes of something that is not a resource id

struct CountingPolicy {
  using Type = int;
  static constexpr int Default() { return -1; }
  static bool IsValid(const int& v) { return v >= 0; }
  static void Close(int* v) {
    if (*v >= 0) {
      if (*v < 4) g_closed[*v] += 1;
      else g_bad_close += 1;
    }
    *v = -1;
  }
  static int Release(int* v) {
    const int t = *v;
    *v = -1;
    return t;
  }
  static constexpr std::uint64_t HandleType() { return 1; }
};
using UH = nop::UniqueHandle<CountingPolicy>;

inline void unique_handle_ops() {
  for (int i = 0; i < 4; i++) g_closed[i] = 0;
  g_bad_close = 0;
  const bool ha = nondet<bool>(), hb = nondet<bool>();
  int released = -1;
  int owner_a = ha ? 0 : -1, owner_b = hb ? 1 : -1;  // which resource each handle should own afterwards
  const std::uint8_t op = nondet<std::uint8_t>();
  {
    UH a, b;
    if (ha) a = UH(0);
    if (hb) b = UH(1);
    vt_check(static_cast<bool>(a) == ha && static_cast<bool>(b) == hb && a.get() == (ha ? 0 : -1), "a UniqueHandle reports the resource it was given");
    if (op == 0) {  // move assignment over a possibly owning handle closes what it owned, takes the source's
      a = std::move(b);
      vt_check(g_closed[0] == (ha ? 1 : 0), "move-assignment over a handle closes the resource it owned, once");
      vt_check(a.get() == (hb ? 1 : -1) && !static_cast<bool>(b), "move-assignment transfers ownership and empties the source");
      owner_a = owner_b;
      owner_b = -1;
    } else if (op == 1) {  // move construction
      UH c(std::move(b));
      vt_check(c.get() == (hb ? 1 : -1) && !static_cast<bool>(b), "move construction transfers ownership");
      vt_check(g_closed[1] == 0, "move construction closes nothing");
      owner_b = -1;  // c is destroyed at the end of this block and closes resource 1
    } else if (op == 2) {
      a.close();
      vt_check(!static_cast<bool>(a) && g_closed[0] == (ha ? 1 : 0), "close() closes the owned resource once");
      a.close();
      vt_check(g_closed[0] == (ha ? 1 : 0), "a second close() closes nothing");
      owner_a = -1;
    } else if (op == 3) {
      released = a.release();
      vt_check(released == (ha ? 0 : -1) && !static_cast<bool>(a), "release() hands the resource out and empties the handle");
      owner_a = -1;
    } else if (op == 4) {
      a = std::move(a);  // self move-assignment keeps the resource
      vt_check(a.get() == (ha ? 0 : -1) && g_closed[0] == 0, "self move-assignment neither closes nor loses the resource");
    }
    vt_cover(op == 0 && ha && hb, "move-assignment between two owning handles reached");
    vt_cover(op == 3 && ha, "release of an owned resource reached");
  }
  // all handles destroyed: every resource that was owned and not released was closed exactly once
  vt_check(g_closed[0] == ((ha && released != 0) ? 1 : 0), "resource 0 closed exactly once unless it was released");
  vt_check(g_closed[1] == (hb ? 1 : 0), "resource 1 closed exactly once (also after being moved)");
  vt_check(g_closed[2] == 0 && g_closed[3] == 0 && g_bad_close == 0, "nothing else was ever closed");
  (void)owner_a;
  (void)owner_b;
}

// --------------------------------------------------------------------------- handle codec
struct HP {  // plain value handles of type tag 9
  using Type = int;
  static constexpr int Default() { return -1; }
  static bool IsValid(const int& v) { return v >= 0; }
  static void Close(int* v) { *v = -1; }
  static int Release(int* v) { const int t = *v; *v = -1; return t; }
  static constexpr std::uint64_t HandleType() { return 9; }
};
using H = nop::Handle<HP>;

// the reference writer / reader plus an out-of-band handle channel with a log
struct HWriter : SpecWriter {
  int pushed[4];
  std::size_t npushed;
  nop::HandleReference refs[4];  // what the channel returns for the i-th push
  std::size_t push_fail_at;      // the push with this index fails ...
  int push_fail_code;            // ... with this code
  template <typename HandleType>
  nop::Status<nop::HandleReference> PushHandle(const HandleType& h) {
    const std::size_t i = npushed;
    if (i < 4) pushed[i] = h.get();
    npushed += 1;
    if (i == push_fail_at) return static_cast<nop::ErrorStatus>(push_fail_code);
    return refs[i < 4 ? i : 3];
  }
};
struct HReader : SpecReader {
  nop::HandleReference asked[4];
  std::size_t nasked;
  std::size_t get_fail_at;
  int get_fail_code;
  template <typename HandleType>
  nop::Status<HandleType> GetHandle(nop::HandleReference ref) {
    const std::size_t i = nasked;
    if (i < 4) asked[i] = ref;
    nasked += 1;
    if (i == get_fail_at) return static_cast<nop::ErrorStatus>(get_fail_code);
    return HandleType(static_cast<int>(static_cast<unsigned>(ref) + 100u));  // the resource a reference denotes
  }
};

struct SH {
  H a;
  std::uint8_t x;
  H b;
  NOP_STRUCTURE(SH, a, x, b);
};
struct TH {
  nop::Entry<H, 2> h;
  nop::Entry<std::uint8_t, 1> y;
  NOP_TABLE_HASH(3, TH, h, y);
};

inline void enc_handle(fmt::Out& o, nop::HandleReference ref) {
  fmt::put(o, FMT_HND);
  fmt::enc_uint(o, 9);   // TYPE
  fmt::enc_int(o, ref);  // INT64 class reference, smallest class
}

inline void handle_write_lemma() {
  SH v;
  v.a = H(nondet<int>());
  v.x = nondet<std::uint8_t>();
  v.b = H(nondet<int>());
  std::uint8_t buf[fmt::kCap];
  HWriter w;
  w.Init(buf, sizeof buf);
  w.npushed = 0;
  w.push_fail_at = nondet<std::uint8_t>();
  w.push_fail_code = nondet<std::uint8_t>();
  vt_assume(w.push_fail_code >= 1 && w.push_fail_code <= 18);
  for (int i = 0; i < 4; i++) w.refs[i] = nondet<std::int64_t>();
  nop::Serializer<HWriter*> s{&w};
  const std::size_t size = s.GetSize(v);
  auto st = s.Write(v);
  if (w.push_fail_at >= 2) {
    vt_check(static_cast<bool>(st), "write succeeds");
    vt_check(w.npushed == 2 && w.pushed[0] == v.a.get() && w.pushed[1] == v.b.get(), "each handle is handed to the out-of-band channel exactly once, in encounter order");
    fmt::Out o;
    fmt::init(o);
    fmt::enc_header(o, FMT_STU, 3);
    enc_handle(o, w.refs[0]);
    Fmt<std::uint8_t>::enc(o, v.x);
    enc_handle(o, w.refs[1]);
    vt_check(w.pos == o.n, "length == documented encoding with the returned references");
    const std::size_t i = nondet<std::uint8_t>();
    vt_assume(i < o.n);
    vt_check(buf[i] == o.b[i], "exactly the reference the writer returned is encoded after the type tag");
    vt_check(size >= w.pos, "GetSize never under-estimates a value with handles");
  } else {
    vt_check(static_cast<int>(st.error()) == w.push_fail_code, "a PushHandle error is returned unchanged");
    vt_check(w.npushed == w.push_fail_at + 1, "no further handle is pushed after a failure");
  }
  vt_cover(w.push_fail_at == 1, "second push failing reached");
  vt_cover(w.push_fail_at >= 2, "success reached");
}

inline void handle_read_lemma() {
  // bytes: a valid encoding built by the specification encoder with symbolic references and a symbolic type tag
  const std::int64_t r0 = nondet<std::int64_t>(), r1 = nondet<std::int64_t>();
  const std::uint64_t tag1 = nondet<std::uint64_t>();
  const std::uint8_t x = nondet<std::uint8_t>();
  fmt::Out o;
  fmt::init(o);
  fmt::enc_header(o, FMT_STU, 3);
  enc_handle(o, r0);
  Fmt<std::uint8_t>::enc(o, x);
  fmt::put(o, FMT_HND);
  fmt::enc_uint(o, tag1);  // possibly a wrong type tag for the second handle
  fmt::enc_int(o, r1);
  vt_assume(o.n <= fmt::kCap);
  HReader r;
  r.Init(o.b, o.n);
  r.nasked = 0;
  r.get_fail_at = nondet<std::uint8_t>();
  r.get_fail_code = nondet<std::uint8_t>();
  vt_assume(r.get_fail_code >= 1 && r.get_fail_code <= 18);
  nop::Deserializer<HReader*> d{&r};
  SH out;
  auto st = d.Read(&out);
  if (r.get_fail_at == 0) {
    vt_check(static_cast<int>(st.error()) == r.get_fail_code && r.nasked == 1, "a resolution error is returned unchanged and stops the read");
  } else if (tag1 != 9) {
    vt_check(st.error() == nop::ErrorStatus::UnexpectedHandleType, "a mismatched handle type tag is rejected with UnexpectedHandleType");
    vt_check(r.nasked == 1, "the mismatched handle is never resolved");
  } else if (r.get_fail_at == 1) {
    vt_check(static_cast<int>(st.error()) == r.get_fail_code, "a resolution error on the second handle is returned unchanged");
  } else {
    vt_check(static_cast<bool>(st), "read succeeds");
    vt_check(r.nasked == 2 && r.asked[0] == r0 && r.asked[1] == r1, "exactly the encoded references are resolved through the reader, in order");
    vt_check(out.a.get() == static_cast<int>(static_cast<unsigned>(r0) + 100u) && out.b.get() == static_cast<int>(static_cast<unsigned>(r1) + 100u) && out.x == x, "the handles denote the resources the references resolve to");
    vt_check(r.pos == o.n, "consumes exactly the encoding");
  }
  vt_cover(tag1 != 9 && r.get_fail_at > 1, "wrong tag reached");
  vt_cover(tag1 == 9 && r.get_fail_at > 1, "success reached");
}

// a handle inside a table entry goes through BoundedWriter::PushHandle / BoundedReader::GetHandle
inline void handle_table_lemma() {
  TH v;
  v.h = H(nondet<int>());
  v.y = nondet<std::uint8_t>();
  std::uint8_t buf[fmt::kCap];
  HWriter w;
  w.Init(buf, sizeof buf);
  w.npushed = 0;
  w.push_fail_at = 7;
  w.push_fail_code = 16;
  const std::int64_t ref = nondet<std::int64_t>();
  for (int i = 0; i < 4; i++) w.refs[i] = ref;
  nop::Serializer<HWriter*> s{&w};
  const std::size_t size = s.GetSize(v);
  auto st = s.Write(v);
  vt_check(static_cast<bool>(st) && w.npushed == 1 && w.pushed[0] == v.h.get().get(), "the handle in the entry is pushed exactly once");
  vt_check(w.pos == size, "a table pads handle entries so that bytes written == GetSize");
  HReader r;
  r.Init(buf, w.pos);
  r.nasked = 0;
  r.get_fail_at = 7;
  r.get_fail_code = 16;
  nop::Deserializer<HReader*> d{&r};
  TH out;
  auto rs = d.Read(&out);
  vt_check(static_cast<bool>(rs) && r.nasked == 1 && r.asked[0] == ref, "the reference written is the reference resolved");
  vt_check(!out.h.empty() && out.h.get().get() == static_cast<int>(static_cast<unsigned>(ref) + 100u) && out.y == v.y, "round trip through a table entry denotes the same resource");
  vt_check(r.pos == w.pos, "the padded entry is consumed exactly");
  vt_cover(true, "handle table lemma end");
}

// handles at other nesting positions: inside an Optional and inside a Variant alternative
struct SN {
  nop::Optional<H> o;
  nop::Variant<H, std::uint8_t> v;
  H last;
  NOP_STRUCTURE(SN, o, v, last);
};
inline void handle_nested_lemma() {
  SN s;
  const bool has_o = nondet<bool>();
  const bool v_is_handle = nondet<bool>();
  const int ho = nondet<int>(), hv = nondet<int>(), hl = nondet<int>();
  if (has_o) s.o = H(ho);
  if (v_is_handle) s.v = H(hv); else s.v = static_cast<std::uint8_t>(hv);
  s.last = H(hl);
  std::uint8_t buf[fmt::kCap];
  HWriter w;
  w.Init(buf, sizeof buf);
  w.npushed = 0;
  w.push_fail_at = 9;
  w.push_fail_code = 16;
  for (int i = 0; i < 4; i++) w.refs[i] = 10 + i;
  nop::Serializer<HWriter*> ser{&w};
  const std::size_t size = ser.GetSize(s);
  auto st = ser.Write(s);
  const std::size_t expected = (has_o ? 1 : 0) + (v_is_handle ? 1 : 0) + 1;
  vt_check(static_cast<bool>(st) && w.npushed == expected, "exactly the handles present in the value are pushed, each once");
  std::size_t k = 0;
  if (has_o) { vt_check(w.pushed[k] == ho, "the Optional's handle is pushed first"); k++; }
  if (v_is_handle) { vt_check(w.pushed[k] == hv, "the Variant's handle is pushed in encounter order"); k++; }
  vt_check(w.pushed[k] == hl, "the last member's handle is pushed last");
  vt_check(size >= w.pos, "GetSize never under-estimates");
  HReader r;
  r.Init(buf, w.pos);
  r.nasked = 0;
  r.get_fail_at = 9;
  r.get_fail_code = 16;
  nop::Deserializer<HReader*> d{&r};
  SN out;
  auto rs = d.Read(&out);
  vt_check(static_cast<bool>(rs) && r.nasked == expected && r.pos == w.pos, "every encoded reference is resolved once and the encoding is consumed exactly");
  vt_check(out.o.empty() == !has_o && (!has_o || out.o.get().get() == 110), "the Optional's handle denotes the resource its reference resolves to");
  vt_check(out.v.index() == (v_is_handle ? 0 : 1), "the Variant keeps its alternative");
  if (v_is_handle) vt_check(out.v.get<H>()->get() == 110 + static_cast<int>(has_o ? 1 : 0), "the Variant's handle denotes the resource its reference resolves to");
  vt_check(out.last.get() == 110 + static_cast<int>(expected - 1), "the last handle denotes the resource its reference resolves to");
  vt_cover(has_o && v_is_handle, "three handles reached");
  vt_cover(!has_o && !v_is_handle, "single handle reached");
}

}  // namespace vt

VT_HARNESS(h_handle_nested) { vt::handle_nested_lemma(); }
VT_HARNESS(h_unique_handle) { vt::unique_handle_ops(); }
VT_HARNESS(h_handle_write) { vt::handle_write_lemma(); }
VT_HARNESS(h_handle_read) { vt::handle_read_lemma(); }
VT_HARNESS(h_handle_table) { vt::handle_table_lemma(); }
