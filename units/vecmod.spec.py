#!/usr/bin/env python3
# jobs for units/vecmod.cpp — MODULAR, UNBOUNDED contracts for the byte-counted growable containers.
#
# Tower (every level enforced with the levels below REPLACED by their contracts):
#   (0) the reference reader's Ensure / block Read over a source of up to 2^40 bytes, with a fault plan
#       [Ensure: body proved here; block Read: body proved here for <= 64 bytes (memcpy of symbolic length does not
#        scale), ASSUMED beyond — it is the specification object, not libnop code]
#   (1) EncodingIO<uint64_t>::Read over the reference reader in little-endian form (whole value, not byte-wise)
#   (2) std::vector<T>::resize / std::basic_string<C>::resize: ASSUMED contract of the dependency (abstract model
#       spec/stdmodel_abs): new size n, storage a fresh object of n * sizeof(T) bytes (+ terminator for strings);
#       PRECONDITION n <= bytes vouched for by the last successful Ensure — checked at the call site, this is C02's
#       "no allocation sized by an unchecked length field"
#   (3) Encoding<std::vector<T>>::ReadPayload / Encoding<std::basic_string<C>>::ReadPayload: for EVERY declared byte
#       length (all five integer classes, up to 2^64-1) and every source length up to 2^40: success exactly when the
#       length is a multiple of the element size and that many bytes follow; the element count, the bytes and the
#       reader position on success; the documented error otherwise; nothing allocated on rejected input; faults verbatim.
out = ["cxxflags -Ispec/stdmodel_abs"]
out.append("c #define VT_MAXLEN (1UL << 40)")
out.append("c #ifndef VT_TERM")
out.append("c #define VT_TERM 0")
out.append("c #endif")
out.append("c #ifndef VT_BLOCK_MAX")
out.append("c #define VT_BLOCK_MAX 64")
out.append("c #endif")
out.append("c #define VT_G_ENSURED _ZN2vtL15g_ensured_bytesE")
out.append("c unsigned char vt_p; unsigned long vt_dl; unsigned long vt_val; unsigned long vt_n;")
out.append("c #define SR_PRE(r) (FRESH(r) && (r)->failed == 0 && (r)->fail_code >= 1 && (r)->fail_code <= 18 && (r)->len <= VT_MAXLEN && (r)->pos <= (r)->len && FRESHN((r)->src, (r)->len))")
out.append("c #define S1(r) ((unsigned long)(r)->src[OLD((r)->pos) + 1])")
out.append("c #define S2(r) (S1(r) | ((unsigned long)(r)->src[OLD((r)->pos) + 2] << 8))")
out.append("c #define S4(r) (S2(r) | ((unsigned long)(r)->src[OLD((r)->pos) + 3] << 16) | ((unsigned long)(r)->src[OLD((r)->pos) + 4] << 24))")
out.append("c #define S8(r) (S4(r) | ((unsigned long)(r)->src[OLD((r)->pos) + 5] << 32) | ((unsigned long)(r)->src[OLD((r)->pos) + 6] << 40) | ((unsigned long)(r)->src[OLD((r)->pos) + 7] << 48) | ((unsigned long)(r)->src[OLD((r)->pos) + 8] << 56))")
# pre-state versions (no OLD) for requires clauses
out.append("c #define P1(r) ((unsigned long)(r)->src[(r)->pos + 1])")
out.append("c #define P2(r) (P1(r) | ((unsigned long)(r)->src[(r)->pos + 2] << 8))")
out.append("c #define P4(r) (P2(r) | ((unsigned long)(r)->src[(r)->pos + 3] << 16) | ((unsigned long)(r)->src[(r)->pos + 4] << 24))")
out.append("c #define P8(r) (P4(r) | ((unsigned long)(r)->src[(r)->pos + 5] << 32) | ((unsigned long)(r)->src[(r)->pos + 6] << 40) | ((unsigned long)(r)->src[(r)->pos + 7] << 48) | ((unsigned long)(r)->src[(r)->pos + 8] << 56))")

AV = "(reader->len - OLD(reader->pos))"
GH = "requires reader->pos < reader->len ==> (vt_p == reader->src[reader->pos] && vt_dl == VT_DECLEN_UINT(vt_p, 8))"
HDR = "(%s >= 1 && vt_dl != 0 && %s >= vt_dl)" % (AV, AV)

def nofault(n):
    return "(OLD(reader->fail_at) - OLD(reader->calls) >= %d)" % n

# after_fail (calls made after a call had already failed) is in no assigns clause: a call after a failure violates the frame
# ---- (0) reference reader primitives, concrete semantics
out.append("contract vt::SpecReader::Ensure(unsigned long)\n"
  "  requires SR_PRE(this)\n"
  "  assigns this->failed, this->calls, VT_G_ENSURED\n"
  "  ensures this->calls == OLD(this->calls) + 1\n"
  "  ensures ERR(RET) == 0 ==> (this->failed == 0 && size <= this->len - this->pos && VT_G_ENSURED == size)\n"
  "  ensures ERR(RET) != 0 ==> (this->failed == ERR(RET) && VT_G_ENSURED == OLD(VT_G_ENSURED))\n"
  "  ensures OLD(this->fail_at) == OLD(this->calls) ==> ERR(RET) == this->fail_code\n"
  "  ensures (OLD(this->fail_at) != OLD(this->calls) && size <= this->len - this->pos) ==> ERR(RET) == 0\n"
  "  ensures (OLD(this->fail_at) != OLD(this->calls) && size > this->len - this->pos) ==> ERR(RET) == E_ReadLimitReached\n")
out.append("job vm_fn_spec_ensure\n  props C02 C04\n  enforce vt::SpecReader::Ensure(unsigned long)\n")

def block_read(ct, es, bound, tag):
    key = "vt::SpecReader::Read<%s>(%s *, %s *)" % (ct, ct, ct)
    out.append("contract %s\n"
      "  requires SR_PRE(this) && vt_n <= VT_BLOCK_MAX && FRESHN(begin, vt_n * %d) && end == begin + vt_n\n"
      "  assigns __CPROVER_object_upto(begin, vt_n * %d), this->pos, this->failed, this->calls\n"
      "  ensures this->calls == OLD(this->calls) + 1\n"
      "  ensures ERR(RET) == 0 ==> (this->failed == 0 && this->pos == OLD(this->pos) + vt_n * %d && this->pos <= this->len)\n"
      "  ensures (ERR(RET) == 0 && vt_k < vt_n * %d) ==> ((unsigned char*)begin)[vt_k] == this->src[OLD(this->pos) + vt_k]\n"
      "  ensures ERR(RET) != 0 ==> (this->pos == OLD(this->pos) && this->failed == ERR(RET))\n"
      "  ensures OLD(this->fail_at) == OLD(this->calls) ==> ERR(RET) == this->fail_code\n"
      "  ensures (OLD(this->fail_at) != OLD(this->calls) && vt_n * %d <= this->len - OLD(this->pos)) ==> ERR(RET) == 0\n"
      "  ensures (OLD(this->fail_at) != OLD(this->calls) && vt_n * %d > this->len - OLD(this->pos)) ==> ERR(RET) == E_ReadLimitReached\n"
      % (key, es, es, es, es, es, es))
    out.append("job vm_fn_spec_read_%s\n  props C02 C04\n  define VT_BLOCK_MAX=%d\n  pre vt_n = nondet_ulong(); vt_k = nondet_ulong();\n  enforce %s\n  note body proved for blocks of <= %d elements (memcpy of symbolic length); the same contract is ASSUMED for larger blocks where it replaces the call\n" % (tag, bound, key, bound))
    return key

# ---- (1) uint64 decode over the reference reader, whole value
U64 = "nop::EncodingIO<unsigned long>::Read<vt::SpecReader>"
out.append("contract " + U64 + "\n"
  "  requires SR_PRE(reader) && FRESH(value)\n  " + GH + "\n"
  "  assigns *value, reader->pos, reader->failed, reader->calls\n"
  "  ensures reader->pos <= reader->len && reader->pos >= OLD(reader->pos) && reader->calls - OLD(reader->calls) >= 1 && reader->calls - OLD(reader->calls) <= 2\n"
  "  ensures ERR(RET) == 0 ==> (reader->failed == 0 && " + HDR + " && reader->pos == OLD(reader->pos) + vt_dl)\n"
  "  ensures (ERR(RET) == 0 && vt_dl == 1) ==> *value == vt_p\n"
  "  ensures (ERR(RET) == 0 && vt_dl == 2) ==> *value == S1(reader)\n"
  "  ensures (ERR(RET) == 0 && vt_dl == 3) ==> *value == S2(reader)\n"
  "  ensures (ERR(RET) == 0 && vt_dl == 5) ==> *value == S4(reader)\n"
  "  ensures (ERR(RET) == 0 && vt_dl == 9) ==> *value == S8(reader)\n"
  "  ensures (" + nofault(2) + " && " + AV + " >= 1 && vt_dl == 0) ==> ERR(RET) == E_UnexpectedEncodingType\n"
  "  ensures (" + nofault(2) + " && (" + AV + " == 0 || (vt_dl != 0 && " + AV + " < vt_dl))) ==> ERR(RET) == E_ReadLimitReached\n"
  "  ensures (" + nofault(2) + " && " + HDR + ") ==> ERR(RET) == 0\n"
  "  ensures (ERR(RET) != 0 && ERR(RET) != E_UnexpectedEncodingType) ==> (reader->failed == ERR(RET))\n"
  "  ensures (ERR(RET) == E_UnexpectedEncodingType && reader->failed == 0) ==> (" + AV + " >= 1 && vt_dl == 0)\n")
out.append("job vm_fn_read_u64_spec\n  props C02 C04\n  pre vt_p = nondet_uchar(); vt_dl = nondet_ulong();\n  enforce " + U64 + "\n  timeout 900\n")

# ---- (2) + (3)
VAL = ("requires (reader->pos < reader->len && vt_dl != 0 && reader->len - reader->pos >= vt_dl) ==> "
       "vt_val == (vt_dl == 1 ? (unsigned long)vt_p : vt_dl == 2 ? P1(reader) : vt_dl == 3 ? P2(reader) : vt_dl == 5 ? P4(reader) : P8(reader))")
def container(cxx, tag, ct, es, is_string, err_len):
    rk = block_read(ct, es, 64 // es, tag)
    resize = "%s::resize(unsigned long)" % cxx
    alloc = "(n + 1) * %d" % es if is_string else "n * %d" % es
    out.append("contract %s\n"
      "  requires FRESH(this) && n <= VT_G_ENSURED\n"
      "  assigns this->data_, this->size_\n"
      "  ensures this->size_ == n && FRESHN(this->data_, %s)\n" % (resize, alloc))
    # the string reader vouches for `characters` bytes (Ensure(size) with size in characters): the allocation is
    # es x the vouched-for bytes, a constant multiple
    ensured = "vt_val / %d" % es if is_string else "vt_val"
    key = "nop::Encoding<%s>::ReadPayload<vt::SpecReader>" % cxx
    fits = "(%s - vt_dl >= %s)" % (AV, ensured)          # what Ensure checks
    data_ok = "(%s - vt_dl >= vt_val)" % AV               # what the block read needs
    cl = ["requires SR_PRE(reader) && FRESH(value)", GH, VAL,
          "requires vt_n == vt_val / %d" % es,
          "assigns value->data_, value->size_, reader->pos, reader->failed, reader->calls, VT_G_ENSURED",
          "ensures reader->pos <= reader->len",
          "ensures ERR(RET) == 0 ==> (reader->failed == 0 && %s && vt_val %% %d == 0 && %s && value->size_ == vt_val / %d && reader->pos == OLD(reader->pos) + vt_dl + vt_val)" % (HDR, es, data_ok, es),
          "ensures ERR(RET) == 0 ==> FRESHN(value->data_, vt_val + %d)" % (es if is_string else 0),
          "ensures (ERR(RET) == 0 && vt_k < vt_val) ==> ((unsigned char*)value->data_)[vt_k] == reader->src[OLD(reader->pos) + vt_dl + vt_k]",
          "ensures (%s && %s && vt_val %% %d != 0) ==> ERR(RET) == %s" % (nofault(4), HDR, es, err_len),
          "ensures (%s && %s && vt_val %% %d == 0 && !%s) ==> ERR(RET) == E_ReadLimitReached" % (nofault(4), HDR, es, data_ok),
          "ensures (%s && %s && vt_val %% %d == 0 && %s) ==> ERR(RET) == 0" % (nofault(4), HDR, es, data_ok),
          "ensures (%s && %s >= 1 && vt_dl == 0) ==> ERR(RET) == E_UnexpectedEncodingType" % (nofault(4), AV),
          "ensures (%s && (%s == 0 || (vt_dl != 0 && %s < vt_dl))) ==> ERR(RET) == E_ReadLimitReached" % (nofault(4), AV, AV),
          # nothing is allocated for input that is rejected before the data is there (C02), and never more than the
          # vouched-for byte count times the element size
          "ensures (%s && ERR(RET) != 0 && !(%s && vt_val %% %d == 0 && %s)) ==> (value->size_ == OLD(value->size_) && value->data_ == OLD(value->data_))" % (nofault(4), HDR, es, fits),
          "ensures (ERR(RET) != 0 && ERR(RET) != E_UnexpectedEncodingType && ERR(RET) != %s) ==> reader->failed == ERR(RET)" % err_len,
          ]
    out.append("contract %s\n%s" % (key, "".join("  %s\n" % c for c in cl)))
    out.append("job vm_fn_readpayload_%s\n  props C02 C04 C11 C10\n  define VT_BLOCK_MAX=(1UL<<40)\n  pre vt_p = nondet_uchar(); vt_dl = nondet_ulong(); vt_val = nondet_ulong(); vt_n = nondet_ulong(); vt_k = nondet_ulong();\n"
               "  enforce %s\n  replace %s\n  replace vt::SpecReader::Ensure(unsigned long)\n  replace %s\n  replace %s\n  timeout 1800\n"
               "  note unbounded: every declared byte length (all integer classes up to 2^64-1), every source length up to 2^40; resize() under its ASSUMED contract whose precondition (n <= bytes vouched for by Ensure) is checked at the call\n"
               % (tag, key, U64, resize, rk))

container("std::vector<unsigned int>", "vecu32", "unsigned int", 4, False, "E_InvalidContainerLength")
container("std::vector<unsigned char>", "vecu8", "unsigned char", 1, False, "E_InvalidContainerLength")
container("std::basic_string<char>", "str", "char", 1, True, "E_InvalidStringLength")
container("std::basic_string<wchar_t>", "wstr", "wchar_t", 4, True, "E_InvalidStringLength")

# =========================================================================================================
# Write side.  (w0) block Write of the reference writer [body proved for <= 64 bytes, assumed beyond]; (w1) uint64 encode
# over the reference writer; (w2) WritePayload of the containers with (w0), (w1) replaced: for every element count up to
# 2^36 and every sink capacity up to 2^40: success exactly when header + payload fit (no injected fault), position
# advanced by exactly that, header == smallest class of the BYTE length (ghost index vt_k), payload == the element bytes
# (ghost index vt_k2), precise frame (nothing outside [pos, pos + header + payload) is written).
out.append("c unsigned long vt_k2;")
out.append("c #define SW_PRE(w) (FRESH(w) && (w)->failed == 0 && (w)->fail_code >= 1 && (w)->fail_code <= 18 && (w)->cap <= VT_MAXLEN && (w)->pos <= (w)->cap && FRESHN((w)->dst, (w)->cap))")
ROOM = "(writer->cap - OLD(writer->pos))"
def wnofault(n):
    return "(OLD(writer->fail_at) - OLD(writer->calls) >= %d)" % n
WK = "nop::EncodingIO<unsigned long>::Write<vt::SpecWriter>"
out.append("contract " + WK + "\n"
  "  requires SW_PRE(writer) && FRESH(value) && vt_dl == VT_LEN_UINT(*value)\n"
  "  assigns vt_dl <= writer->cap - writer->pos: __CPROVER_object_upto(writer->dst + writer->pos, vt_dl)\n"
  "  assigns (vt_dl > writer->cap - writer->pos && writer->pos < writer->cap): writer->dst[writer->pos]\n"
  "  assigns writer->pos, writer->failed, writer->calls, writer->writes\n"
  "  ensures writer->pos <= writer->cap && writer->writes - OLD(writer->writes) <= 2 && writer->calls - OLD(writer->calls) <= 2\n"
  "  ensures ERR(RET) == 0 ==> (writer->failed == 0 && " + ROOM + " >= vt_dl && writer->pos == OLD(writer->pos) + vt_dl && writer->dst[OLD(writer->pos)] == VT_PREFIX_UINT(*value))\n"
  "  ensures (ERR(RET) == 0 && vt_k < vt_dl - 1) ==> writer->dst[OLD(writer->pos) + 1 + vt_k] == (unsigned char)((*value) >> (8 * (vt_k & 7)))\n"
  "  ensures ERR(RET) != 0 ==> (writer->failed == ERR(RET) && writer->pos <= OLD(writer->pos) + 1)\n"
  "  ensures (" + wnofault(2) + " && " + ROOM + " >= vt_dl) ==> ERR(RET) == 0\n"
  "  ensures (" + wnofault(2) + " && " + ROOM + " < vt_dl) ==> ERR(RET) == E_WriteLimitReached\n")
out.append("job vm_fn_write_u64_spec\n  props C03 C06\n  pre vt_k = nondet_ulong(); vt_dl = nondet_ulong();\n  enforce " + WK + "\n  timeout 900\n")

def block_write(ct, es, bound, tag):
    key = "vt::SpecWriter::Write<%s>(const %s *, const %s *)" % (ct, ct, ct)
    out.append("contract %s\n"
      "  requires SW_PRE(this) && vt_n <= VT_BLOCK_MAX && FRESHN(begin, vt_n * %d + VT_TERM) && end == begin + vt_n\n"
      "  assigns vt_n * %d <= this->cap - this->pos: __CPROVER_object_upto(this->dst + this->pos, vt_n * %d)\n"
      "  assigns this->pos, this->failed, this->calls, this->writes\n"
      "  ensures this->calls == OLD(this->calls) + 1 && this->writes == OLD(this->writes) + 1\n"
      "  ensures ERR(RET) == 0 ==> (this->failed == 0 && vt_n * %d <= this->cap - OLD(this->pos) && this->pos == OLD(this->pos) + vt_n * %d)\n"
      "  ensures (ERR(RET) == 0 && vt_k2 < vt_n * %d) ==> this->dst[OLD(this->pos) + vt_k2] == ((const unsigned char*)begin)[vt_k2]\n"
      "  ensures ERR(RET) != 0 ==> (this->pos == OLD(this->pos) && this->failed == ERR(RET))\n"
      "  ensures OLD(this->fail_at) == OLD(this->calls) ==> ERR(RET) == this->fail_code\n"
      "  ensures (OLD(this->fail_at) != OLD(this->calls) && vt_n * %d <= this->cap - OLD(this->pos)) ==> ERR(RET) == 0\n"
      "  ensures (OLD(this->fail_at) != OLD(this->calls) && vt_n * %d > this->cap - OLD(this->pos)) ==> ERR(RET) == E_WriteLimitReached\n"
      % (key, es, es, es, es, es, es, es, es))
    out.append("job vm_fn_spec_write_%s\n  props C03 C06\n  define VT_BLOCK_MAX=%d\n  define VT_TERM=0\n  pre vt_n = nondet_ulong(); vt_k2 = nondet_ulong();\n  enforce %s\n  note body proved for blocks of <= %d elements (memcpy of symbolic length); the same contract is ASSUMED for larger blocks where it replaces the call\n" % (tag, bound, key, bound))
    return key

def wcontainer(cxx, tag, ct, es, is_string):
    wk = block_write(ct, es, 64 // es, tag)
    LB = "(value->size_ * %d)" % es
    key = "nop::Encoding<%s>::WritePayload<vt::SpecWriter>" % cxx
    term = es if is_string else 0
    cl = ["requires SW_PRE(writer) && FRESH(value) && value->size_ <= (1UL << 36) && FRESHN(value->data_, value->size_ * %d + %d)" % (es, term),
          "requires vt_n == value->size_ && vt_dl == VT_LEN_UINT(%s)" % LB,
          "assigns vt_dl <= writer->cap - writer->pos: __CPROVER_object_upto(writer->dst + writer->pos, vt_dl)",
          "assigns (vt_dl > writer->cap - writer->pos && writer->pos < writer->cap): writer->dst[writer->pos]",
          "assigns vt_dl + %s <= writer->cap - writer->pos: __CPROVER_object_upto(writer->dst + writer->pos + vt_dl, %s)" % (LB, LB),
          "assigns writer->pos, writer->failed, writer->calls, writer->writes",
          "ensures writer->pos <= writer->cap && writer->writes - OLD(writer->writes) <= 3",
          "ensures ERR(RET) == 0 ==> (writer->failed == 0 && %s >= vt_dl + %s && writer->pos == OLD(writer->pos) + vt_dl + %s && writer->dst[OLD(writer->pos)] == VT_PREFIX_UINT(%s))" % (ROOM, LB, LB, LB),
          "ensures (ERR(RET) == 0 && vt_k < vt_dl - 1) ==> writer->dst[OLD(writer->pos) + 1 + vt_k] == (unsigned char)(%s >> (8 * (vt_k & 7)))" % LB,
          "ensures (ERR(RET) == 0 && vt_k2 < %s) ==> writer->dst[OLD(writer->pos) + vt_dl + vt_k2] == ((const unsigned char*)value->data_)[vt_k2]" % LB,
          "ensures ERR(RET) != 0 ==> writer->failed == ERR(RET)",
          "ensures (%s && %s >= vt_dl + %s) ==> ERR(RET) == 0" % (wnofault(3), ROOM, LB),
          "ensures (%s && %s < vt_dl + %s) ==> ERR(RET) == E_WriteLimitReached" % (wnofault(3), ROOM, LB)]
    out.append("contract %s\n%s" % (key, "".join("  %s\n" % c for c in cl)))
    out.append("job vm_fn_writepayload_%s\n  props C03 C06 C10\n  define VT_BLOCK_MAX=(1UL<<40)\n  define VT_TERM=%d\n  pre vt_dl = nondet_ulong(); vt_n = nondet_ulong(); vt_k = nondet_ulong(); vt_k2 = nondet_ulong();\n"
               "  enforce %s\n  replace %s\n  replace %s\n  timeout 1800\n"
               "  note unbounded: every element count up to 2^36, every sink capacity up to 2^40\n" % (tag, term, key, WK, wk))

wcontainer("std::vector<unsigned int>", "vecu32", "unsigned int", 4, False)
wcontainer("std::vector<unsigned char>", "vecu8", "unsigned char", 1, False)
wcontainer("std::basic_string<char>", "str", "char", 1, True)
wcontainer("std::basic_string<wchar_t>", "wstr", "wchar_t", 4, True)

# =========================================================================================================
# Top level: Encoding<T>::Read / Encoding<T>::Write (EncodingIO<T>) with the single-byte primitive and ReadPayload /
# WritePayload REPLACED by their contracts: the complete statement of C04 / C02 / C11 (read) and C03 / C06 (write) for
# these containers — prefix byte, length header in any integer class, payload — for every length.
out.append("c unsigned char vt_p0;")
out.append("contract vt::SpecReader::Read(unsigned char *)\n"
  "  requires SR_PRE(this) && FRESH(byte)\n"
  "  assigns *byte, this->pos, this->failed, this->calls\n"
  "  ensures this->calls == OLD(this->calls) + 1\n"
  "  ensures ERR(RET) == 0 ==> (this->failed == 0 && OLD(this->pos) < this->len && this->pos == OLD(this->pos) + 1 && *byte == this->src[OLD(this->pos)])\n"
  "  ensures ERR(RET) != 0 ==> (this->pos == OLD(this->pos) && this->failed == ERR(RET))\n"
  "  ensures OLD(this->fail_at) == OLD(this->calls) ==> ERR(RET) == this->fail_code\n"
  "  ensures (OLD(this->fail_at) != OLD(this->calls) && OLD(this->pos) < this->len) ==> ERR(RET) == 0\n"
  "  ensures (OLD(this->fail_at) != OLD(this->calls) && OLD(this->pos) >= this->len) ==> ERR(RET) == E_ReadLimitReached\n")
out.append("job vm_fn_spec_read1\n  props C02 C04\n  enforce vt::SpecReader::Read(unsigned char *)\n")
out.append("contract vt::SpecWriter::Write(unsigned char)\n"
  "  requires SW_PRE(this)\n"
  "  assigns this->pos < this->cap: this->dst[this->pos]\n"
  "  assigns this->pos, this->failed, this->calls, this->writes\n"
  "  ensures this->calls == OLD(this->calls) + 1 && this->writes == OLD(this->writes) + 1\n"
  "  ensures ERR(RET) == 0 ==> (this->failed == 0 && OLD(this->pos) < this->cap && this->pos == OLD(this->pos) + 1 && this->dst[OLD(this->pos)] == byte)\n"
  "  ensures ERR(RET) != 0 ==> (this->pos == OLD(this->pos) && this->failed == ERR(RET))\n"
  "  ensures OLD(this->fail_at) == OLD(this->calls) ==> ERR(RET) == this->fail_code\n"
  "  ensures (OLD(this->fail_at) != OLD(this->calls) && OLD(this->pos) < this->cap) ==> ERR(RET) == 0\n"
  "  ensures (OLD(this->fail_at) != OLD(this->calls) && OLD(this->pos) >= this->cap) ==> ERR(RET) == E_WriteLimitReached\n")
out.append("job vm_fn_spec_write1\n  props C03 C06\n  enforce vt::SpecWriter::Write(unsigned char)\n")
out.append("c #define Q1(r) ((unsigned long)(r)->src[(r)->pos + 2])")
out.append("c #define Q2(r) (Q1(r) | ((unsigned long)(r)->src[(r)->pos + 3] << 8))")
out.append("c #define Q4(r) (Q2(r) | ((unsigned long)(r)->src[(r)->pos + 4] << 16) | ((unsigned long)(r)->src[(r)->pos + 5] << 24))")
out.append("c #define Q8(r) (Q4(r) | ((unsigned long)(r)->src[(r)->pos + 6] << 32) | ((unsigned long)(r)->src[(r)->pos + 7] << 40) | ((unsigned long)(r)->src[(r)->pos + 8] << 48) | ((unsigned long)(r)->src[(r)->pos + 9] << 56))")
def top(cxx, tag, es, is_string, err_len):
    pfx = "FMT_STR" if is_string else "FMT_BIN"
    ensured = "vt_val / %d" % es if is_string else "vt_val"
    AVP = "(reader->len - OLD(reader->pos) - 1)"
    HDR1 = "(%s >= 1 && vt_p0 == %s && %s >= 1 && vt_dl != 0 && %s >= vt_dl)" % (AV, pfx, AVP, AVP)
    data_ok = "(%s - vt_dl >= vt_val)" % AVP
    fits = "(%s - vt_dl >= %s)" % (AVP, ensured)
    key = "nop::EncodingIO<%s>::Read<vt::SpecReader>" % cxx
    cl = ["requires SR_PRE(reader) && FRESH(value)",
          "requires reader->pos < reader->len ==> vt_p0 == reader->src[reader->pos]",
          "requires reader->pos + 1 < reader->len ==> (vt_p == reader->src[reader->pos + 1] && vt_dl == VT_DECLEN_UINT(vt_p, 8))",
          "requires (reader->pos + 1 < reader->len && vt_dl != 0 && reader->len - reader->pos - 1 >= vt_dl) ==> "
          "vt_val == (vt_dl == 1 ? (unsigned long)vt_p : vt_dl == 2 ? Q1(reader) : vt_dl == 3 ? Q2(reader) : vt_dl == 5 ? Q4(reader) : Q8(reader))",
          "requires vt_n == vt_val / %d" % es,
          "assigns value->data_, value->size_, reader->pos, reader->failed, reader->calls, VT_G_ENSURED",
          "ensures reader->pos <= reader->len",
          "ensures ERR(RET) == 0 ==> (reader->failed == 0 && %s && vt_val %% %d == 0 && %s && value->size_ == vt_val / %d && reader->pos == OLD(reader->pos) + 1 + vt_dl + vt_val)" % (HDR1, es, data_ok, es),
          "ensures ERR(RET) == 0 ==> FRESHN(value->data_, vt_val + %d)" % (es if is_string else 0),
          "ensures (ERR(RET) == 0 && vt_k < vt_val) ==> ((unsigned char*)value->data_)[vt_k] == reader->src[OLD(reader->pos) + 1 + vt_dl + vt_k]",
          "ensures (%s && %s && vt_val %% %d == 0 && %s) ==> ERR(RET) == 0" % (nofault(5), HDR1, es, data_ok),
          "ensures (%s && %s && vt_val %% %d != 0) ==> ERR(RET) == %s" % (nofault(5), HDR1, es, err_len),
          "ensures (%s && %s && vt_val %% %d == 0 && !%s) ==> ERR(RET) == E_ReadLimitReached" % (nofault(5), HDR1, es, data_ok),
          "ensures (%s && %s >= 1 && vt_p0 != %s) ==> ERR(RET) == E_UnexpectedEncodingType" % (nofault(5), AV, pfx),
          "ensures (%s && %s >= 2 && vt_p0 == %s && vt_dl == 0) ==> ERR(RET) == E_UnexpectedEncodingType" % (nofault(5), AV, pfx),
          "ensures (%s && (%s == 0 || (vt_p0 == %s && (%s == 0 || (vt_dl != 0 && %s < vt_dl))))) ==> ERR(RET) == E_ReadLimitReached" % (nofault(5), AV, pfx, AVP, AVP),
          "ensures (%s && ERR(RET) != 0 && !(%s && vt_val %% %d == 0 && %s)) ==> (value->size_ == OLD(value->size_) && value->data_ == OLD(value->data_))" % (nofault(5), HDR1, es, fits),
          "ensures (ERR(RET) != 0 && ERR(RET) != E_UnexpectedEncodingType && ERR(RET) != %s) ==> reader->failed == ERR(RET)" % err_len]
    out.append("contract %s\n%s" % (key, "".join("  %s\n" % c for c in cl)))
    out.append("job vm_fn_read_%s\n  props C02 C04 C11 C10\n  pre vt_p0 = nondet_uchar(); vt_p = nondet_uchar(); vt_dl = nondet_ulong(); vt_val = nondet_ulong(); vt_n = nondet_ulong(); vt_k = nondet_ulong();\n"
               "  enforce %s\n  replace vt::SpecReader::Read(unsigned char *)\n  replace nop::Encoding<%s>::ReadPayload<vt::SpecReader>\n  timeout 1800\n"
               "  note unbounded: the whole decoder of the container (prefix, length header of any class, payload) for every length\n" % (tag, key, cxx))
    # ---- write
    LB = "(value->size_ * %d)" % es
    term = es if is_string else 0
    key = "nop::EncodingIO<%s>::Write<vt::SpecWriter>" % cxx
    TOT = "(1 + vt_dl + %s)" % LB
    cl = ["requires SW_PRE(writer) && FRESH(value) && value->size_ <= (1UL << 36) && FRESHN(value->data_, value->size_ * %d + %d)" % (es, term),
          "requires vt_n == value->size_ && vt_dl == VT_LEN_UINT(%s)" % LB,
          "assigns %s <= writer->cap - writer->pos: __CPROVER_object_upto(writer->dst + writer->pos, %s)" % (TOT, TOT),
          "assigns (%s > writer->cap - writer->pos && 1 + vt_dl <= writer->cap - writer->pos): __CPROVER_object_upto(writer->dst + writer->pos, 1 + vt_dl)" % TOT,
          "assigns (1 + vt_dl > writer->cap - writer->pos && writer->cap - writer->pos >= 2): __CPROVER_object_upto(writer->dst + writer->pos, 2)",
          "assigns (1 + vt_dl > writer->cap - writer->pos && writer->cap - writer->pos == 1): writer->dst[writer->pos]",
          "assigns writer->pos, writer->failed, writer->calls, writer->writes",
          "ensures writer->pos <= writer->cap && writer->writes - OLD(writer->writes) <= 4",
          "ensures ERR(RET) == 0 ==> (writer->failed == 0 && %s >= %s && writer->pos == OLD(writer->pos) + %s && writer->dst[OLD(writer->pos)] == %s && writer->dst[OLD(writer->pos) + 1] == VT_PREFIX_UINT(%s))" % (ROOM, TOT, TOT, pfx, LB),
          "ensures (ERR(RET) == 0 && vt_k < vt_dl - 1) ==> writer->dst[OLD(writer->pos) + 2 + vt_k] == (unsigned char)(%s >> (8 * (vt_k & 7)))" % LB,
          "ensures (ERR(RET) == 0 && vt_k2 < %s) ==> writer->dst[OLD(writer->pos) + 1 + vt_dl + vt_k2] == ((const unsigned char*)value->data_)[vt_k2]" % LB,
          "ensures ERR(RET) != 0 ==> writer->failed == ERR(RET)",
          "ensures (%s && %s >= %s) ==> ERR(RET) == 0" % (wnofault(4), ROOM, TOT),
          "ensures (%s && %s < %s) ==> ERR(RET) == E_WriteLimitReached" % (wnofault(4), ROOM, TOT)]
    out.append("contract %s\n%s" % (key, "".join("  %s\n" % c for c in cl)))
    out.append("job vm_fn_write_%s\n  props C03 C06 C10\n  pre vt_dl = nondet_ulong(); vt_n = nondet_ulong(); vt_k = nondet_ulong(); vt_k2 = nondet_ulong();\n"
               "  enforce %s\n  replace vt::SpecWriter::Write(unsigned char)\n  replace nop::Encoding<%s>::WritePayload<vt::SpecWriter>\n  tier thorough\n  timeout 3600\n"
               "  note unbounded: the whole encoder of the container for every element count up to 2^36; bytes written == 1 + header + payload == Size() (contract sd_size_%s)\n" % (tag, key, cxx, tag))
top("std::vector<unsigned int>", "vecu32", 4, False, "E_InvalidContainerLength")
top("std::vector<unsigned char>", "vecu8", 1, False, "E_InvalidContainerLength")
top("std::basic_string<char>", "str", 1, True, "E_InvalidStringLength")
top("std::basic_string<wchar_t>", "wstr", 4, True, "E_InvalidStringLength")

# =========================================================================================================
# Serializer level (C06): SerializerCommon::Write = Prepare(Size(value)) + Encoding<T>::Write, with Size, Prepare and
# Write REPLACED by their contracts: a sink with room for GetSize bytes never refuses the value, exactly GetSize bytes are
# written, and a sink that is too small refuses in Prepare before anything is written.
out.append("contract vt::SpecWriter::Prepare(unsigned long)\n"
  "  requires SW_PRE(this)\n"
  "  assigns this->failed, this->calls\n"
  "  ensures this->calls == OLD(this->calls) + 1\n"
  "  ensures ERR(RET) == 0 ==> (this->failed == 0 && size <= this->cap - this->pos)\n"
  "  ensures ERR(RET) != 0 ==> this->failed == ERR(RET)\n"
  "  ensures OLD(this->fail_at) == OLD(this->calls) ==> ERR(RET) == this->fail_code\n"
  "  ensures (OLD(this->fail_at) != OLD(this->calls) && size <= this->cap - this->pos) ==> ERR(RET) == 0\n"
  "  ensures (OLD(this->fail_at) != OLD(this->calls) && size > this->cap - this->pos) ==> ERR(RET) == E_WriteLimitReached\n")
out.append("job vm_fn_spec_prepare\n  props C06\n  enforce vt::SpecWriter::Prepare(unsigned long)\n")
def ser(cxx, tag, es, is_string):
    term = es if is_string else 0
    LB = "(value->size_ * %d)" % es
    TOT = "(1 + vt_dl + %s)" % LB
    skey = "nop::Encoding<%s>::Size" % cxx
    out.append("contract %s\n  requires FRESH(value) && value->size_ <= (1UL << 36)\n  assigns\n  ensures RET == 1 + VT_LEN_UINT(%s) + %s\n" % (skey, LB, LB))
    out.append("job vm_fn_size_%s\n  props C06 C03 C01\n  enforce %s\n" % (tag, skey))
    key = "nop::SerializerCommon::Write<%s, vt::SpecWriter>" % cxx
    wkey = "nop::EncodingIO<%s>::Write<vt::SpecWriter>" % cxx
    cl = ["requires SW_PRE(writer) && FRESH(value) && value->size_ <= (1UL << 36) && FRESHN(value->data_, value->size_ * %d + %d)" % (es, term),
          "requires vt_n == value->size_ && vt_dl == VT_LEN_UINT(%s)" % LB,
          "assigns %s <= writer->cap - writer->pos: __CPROVER_object_upto(writer->dst + writer->pos, %s)" % (TOT, TOT),
          "assigns writer->pos, writer->failed, writer->calls, writer->writes",
          "ensures writer->pos <= writer->cap",
          "ensures ERR(RET) == 0 ==> (writer->failed == 0 && %s >= %s && writer->pos == OLD(writer->pos) + %s)" % (ROOM, TOT, TOT),
          "ensures (ERR(RET) == 0 && vt_k2 < %s) ==> writer->dst[OLD(writer->pos) + 1 + vt_dl + vt_k2] == ((const unsigned char*)value->data_)[vt_k2]" % LB,
          "ensures ERR(RET) != 0 ==> writer->failed == ERR(RET)",
          "ensures (%s && %s >= %s) ==> ERR(RET) == 0" % (wnofault(5), ROOM, TOT),
          "ensures (%s && %s < %s) ==> (ERR(RET) == E_WriteLimitReached && writer->pos == OLD(writer->pos) && writer->writes == OLD(writer->writes))" % (wnofault(5), ROOM, TOT),
          "ensures (OLD(writer->fail_at) == OLD(writer->calls)) ==> (ERR(RET) == writer->fail_code && writer->writes == OLD(writer->writes))"]
    out.append("contract %s\n%s" % (key, "".join("  %s\n" % c for c in cl)))
    out.append("job vm_fn_serialize_%s\n  props C06 C10\n  pre vt_dl = nondet_ulong(); vt_n = nondet_ulong(); vt_k = nondet_ulong(); vt_k2 = nondet_ulong();\n"
               "  enforce %s\n  replace %s\n  replace vt::SpecWriter::Prepare(unsigned long)\n  replace %s\n  tier %s\n  timeout 3600\n"
               "  note unbounded: GetSize bytes of room always suffice and exactly GetSize bytes are written; a Write whose Prepare fails writes nothing\n" % (tag, key, skey, wkey, "quick" if tag == "vecu8" else "thorough"))
ser("std::vector<unsigned int>", "vecu32", 4, False)
ser("std::vector<unsigned char>", "vecu8", 1, False)
ser("std::basic_string<char>", "str", 1, True)
ser("std::basic_string<wchar_t>", "wstr", 4, True)

# =========================================================================================================
# Element-wise containers: std::vector<float> (non-integral elements: ARY, one Encoding<T>::Read + push_back per
# element).  LOOP CONTRACT over the element loop of the real ReadPayload, element decoder, uint64 decoder and push_back
# replaced by contracts: for EVERY declared element count up to 2^64-1 the loop terminates, every push_back is preceded
# by a successful element read that consumed 5 bytes (so at most (bytes consumed)/5 elements are ever allocated — C02's
# "never allocates more than a constant multiple of the input length", also for a count field inflated to 2^64-1), on
# success count, position and every element prefix are as documented, faults are returned verbatim.
out.append("c #define VT_G_ALLOC _ZN2vtL19g_model_alloc_bytesE")
out.append("c unsigned long vt_pos0;")
F32 = "nop::EncodingIO<float>::Read<vt::SpecReader>"
AVt = "(reader->len - OLD(reader->pos))"
out.append("contract " + F32 + "\n"
  "  requires SR_PRE(reader) && FRESH(value)\n"
  "  assigns *value, reader->pos, reader->failed, reader->calls\n"
  "  ensures reader->pos <= reader->len && reader->pos >= OLD(reader->pos)\n"
  "  ensures ERR(RET) == 0 ==> (reader->failed == 0 && " + AVt + " >= 5 && reader->pos == OLD(reader->pos) + 5 && reader->src[OLD(reader->pos)] == FMT_F32)\n"
  "  ensures ERR(RET) == 0 ==> *(unsigned int*)value == ((unsigned int)reader->src[OLD(reader->pos) + 1] | ((unsigned int)reader->src[OLD(reader->pos) + 2] << 8) | ((unsigned int)reader->src[OLD(reader->pos) + 3] << 16) | ((unsigned int)reader->src[OLD(reader->pos) + 4] << 24))\n"
  "  ensures ERR(RET) != 0 ==> reader->pos <= OLD(reader->pos) + 1\n"
  "  ensures (" + nofault(2) + " && " + AVt + " >= 5 && reader->src[OLD(reader->pos)] == FMT_F32) ==> ERR(RET) == 0\n"
  "  ensures (" + nofault(2) + " && " + AVt + " >= 1 && reader->src[OLD(reader->pos)] != FMT_F32) ==> ERR(RET) == E_UnexpectedEncodingType\n"
  "  ensures (" + nofault(2) + " && (" + AVt + " == 0 || (reader->src[OLD(reader->pos)] == FMT_F32 && " + AVt + " < 5))) ==> ERR(RET) == E_ReadLimitReached\n"
  "  ensures (ERR(RET) != 0 && ERR(RET) != E_UnexpectedEncodingType) ==> reader->failed == ERR(RET)\n"
  )
out.append("job vm_fn_read_f32_spec\n  props C02 C04\n  enforce " + F32 + "\n  timeout 900\n")
def reserve_contract(cxx, es):
    key = "%s::reserve(unsigned long)" % cxx
    out.append("contract " + key + "\n  requires FRESH(this)\n  assigns VT_G_ALLOC\n"
      "  ensures VT_G_ALLOC >= OLD(VT_G_ALLOC) && (n <= (1UL << 56) ==> VT_G_ALLOC == OLD(VT_G_ALLOC) + %d * n) && (n > (1UL << 56) ==> VT_G_ALLOC >= (1UL << 56))\n" % es)
    return key
RSF = reserve_contract("std::vector<float>", 4)
PB = "std::vector<float>::push_back(float &&)"
out.append("contract " + PB + "\n"
  "  requires FRESH(this) && this->size_ < (1UL << 40)\n"
  "  assigns this->data_, this->size_, VT_G_ALLOC\n"
  "  ensures this->size_ == OLD(this->size_) + 1 && VT_G_ALLOC == OLD(VT_G_ALLOC) + 4 && FRESHN(this->data_, this->size_ * 4)\n")
RPF = "nop::Encoding<std::vector<float>>::ReadPayload<vt::SpecReader>"
out.append("contract " + RPF + "\n"
  "  requires SR_PRE(reader) && FRESH(value) && VT_G_ALLOC == 0 && vt_pos0 == reader->pos\n  " + GH + "\n  " + VAL + "\n"
  "  assigns value->data_, value->size_, reader->pos, reader->failed, reader->calls, VT_G_ALLOC\n"
  "  ensures reader->pos <= reader->len\n"
  "  ensures VT_G_ALLOC <= 4 * ((reader->pos - OLD(reader->pos)) / 5)\n"
  "  ensures ERR(RET) == 0 ==> (reader->failed == 0 && " + HDR + " && vt_val <= VT_MAXLEN / 5 && value->size_ == vt_val && VT_G_ALLOC == 4 * vt_val && reader->pos == OLD(reader->pos) + vt_dl + 5 * vt_val)\n"
  "  ensures (ERR(RET) == 0 && vt_val <= VT_MAXLEN / 5 && vt_k < vt_val) ==> reader->src[OLD(reader->pos) + vt_dl + 5 * vt_k] == FMT_F32\n"
  "  ensures (ERR(RET) != 0 && ERR(RET) != E_UnexpectedEncodingType) ==> reader->failed == ERR(RET)\n"
  "  ensures (" + nofault(2) + " && " + AVt + " >= 1 && vt_dl == 0) ==> ERR(RET) == E_UnexpectedEncodingType\n")
out.append("loop " + RPF + " #0\n"
  "  assigns i, status, value->data_, value->size_, reader->pos, reader->failed, reader->calls, VT_G_ALLOC\n"
  "  invariant i <= size && i <= VT_MAXLEN / 5 && value->size_ == i && VT_G_ALLOC == 4 * i\n"
  "  invariant reader->failed == 0 && reader->fail_code >= 1 && reader->fail_code <= 18 && reader->pos <= reader->len && reader->len <= VT_MAXLEN\n"
  "  invariant reader->pos == vt_pos0 + vt_dl + 5 * i\n"
  "  invariant vt_k < i ==> reader->src[vt_pos0 + vt_dl + 5 * vt_k] == FMT_F32\n"
  "  decreases size - i\n")
out.append("job vm_fn_readpayload_vecf\n  props C02 C04 C10\n  pre vt_p = nondet_uchar(); vt_dl = nondet_ulong(); vt_val = nondet_ulong(); vt_k = nondet_ulong(); vt_pos0 = nondet_ulong();\n"
  "  enforce " + RPF + "\n  loops\n  replace " + U64 + "\n  replace " + F32 + "\n  replace " + PB + "\n  replace " + RSF + "\n  timeout 1800\n"
  "  note unbounded by LOOP CONTRACT: every declared element count up to 2^64-1; termination by the decreases clause\n")

# ---- std::map / std::unordered_map <uint16_t, uint8_t>: the same loop-contract argument for the key / value loop.
def small_read(ct, tag, maxlen):
    key = "nop::EncodingIO<%s>::Read<vt::SpecReader>" % ct
    out.append("contract " + key + "\n"
      "  requires SR_PRE(reader) && FRESH(value)\n"
      "  assigns *value, reader->pos, reader->failed, reader->calls\n"
      "  ensures reader->pos <= reader->len && reader->pos >= OLD(reader->pos) && reader->pos - OLD(reader->pos) <= %d\n"
      "  ensures ERR(RET) == 0 ==> (reader->failed == 0 && reader->pos - OLD(reader->pos) >= 1)\n"
      "  ensures (ERR(RET) != 0 && ERR(RET) != E_UnexpectedEncodingType) ==> reader->failed == ERR(RET)\n" % maxlen)
    out.append("job vm_fn_read_%s_spec\n  props C02 C10\n  enforce %s\n  timeout 900\n  note consumption contract only (the value contract of this function is proved in unit codec_scalar, cs_fn_read_%s)\n" % (tag, key, tag))
    return key
RK16 = small_read("unsigned short", "u16", 3)
RK8 = small_read("unsigned char", "u8", 2)
def mapread(cxx, tag):
    rs = reserve_contract(cxx, 4)
    em = "%s::emplace(std::pair<unsigned short, unsigned char> &&)" % cxx
    out.append("contract " + em + "\n"
      "  requires FRESH(this) && this->size_ < (1UL << 40)\n"
      "  assigns this->data_, this->size_, VT_G_ALLOC\n"
      "  ensures this->size_ >= OLD(this->size_) && this->size_ - OLD(this->size_) <= 1 && VT_G_ALLOC == OLD(VT_G_ALLOC) + 4 * (this->size_ - OLD(this->size_))\n")
    rp = "nop::Encoding<%s>::ReadPayload<vt::SpecReader>" % cxx
    out.append("contract " + rp + "\n"
      "  requires SR_PRE(reader) && FRESH(value) && VT_G_ALLOC == 0 && vt_pos0 == reader->pos\n  " + GH + "\n  " + VAL + "\n"
      "  assigns value->data_, value->size_, reader->pos, reader->failed, reader->calls, VT_G_ALLOC\n"
      "  ensures reader->pos <= reader->len && reader->pos >= OLD(reader->pos)\n"
      "  ensures VT_G_ALLOC <= 4 * ((reader->pos - OLD(reader->pos)) / 2)\n"
      "  ensures ERR(RET) == 0 ==> (reader->failed == 0 && " + HDR + " && vt_val <= VT_MAXLEN / 2 && value->size_ <= vt_val && reader->pos - OLD(reader->pos) - vt_dl >= 2 * vt_val && reader->pos - OLD(reader->pos) - vt_dl <= 5 * vt_val)\n"
      "  ensures (ERR(RET) != 0 && ERR(RET) != E_UnexpectedEncodingType) ==> reader->failed == ERR(RET)\n"
      "  ensures (" + nofault(2) + " && " + AVt + " >= 1 && vt_dl == 0) ==> ERR(RET) == E_UnexpectedEncodingType\n")
    out.append("loop " + rp + " #0\n"
      "  assigns i, status, value->data_, value->size_, reader->pos, reader->failed, reader->calls, VT_G_ALLOC\n"
      "  invariant i <= size && i <= VT_MAXLEN / 2 && value->size_ <= i && VT_G_ALLOC <= 4 * i\n"
      "  invariant reader->failed == 0 && reader->fail_code >= 1 && reader->fail_code <= 18 && reader->pos <= reader->len && reader->len <= VT_MAXLEN\n"
      "  invariant reader->pos >= vt_pos0 + vt_dl && reader->pos - (vt_pos0 + vt_dl) >= 2 * i && reader->pos - (vt_pos0 + vt_dl) <= 5 * i\n"
      "  decreases size - i\n")
    out.append("job vm_fn_readpayload_%s\n  props C02 C10\n  pre vt_p = nondet_uchar(); vt_dl = nondet_ulong(); vt_val = nondet_ulong(); vt_k = nondet_ulong(); vt_pos0 = nondet_ulong();\n"
      "  enforce " % tag + rp + "\n  loops\n  replace " + U64 + "\n  replace " + RK16 + "\n  replace " + RK8 + "\n  replace " + em + "\n  replace " + rs + "\n  timeout 1800\n"
      "  note unbounded by LOOP CONTRACT: every declared pair count up to 2^64-1; an element is only inserted after its key and value were read (>= 2 bytes), so allocation <= 2 x bytes consumed; a read after a failed read violates the callee's precondition\n")
mapread("std::map<unsigned short, unsigned char>", "map")
mapread("std::unordered_map<unsigned short, unsigned char>", "umap")

# =========================================================================================================
# Logical buffer with a narrow count member: LogicalBuffer<uint16_t[200], uint8_t>.  The byte length (count * 2, up to
# 510) does not fit the count member's type, the element count (up to 255) exceeds the capacity (200): Size, WritePayload
# and ReadPayload against the documented BINARY encoding with the uint64 codec and the block transfers replaced.
LBT = "nop::LogicalBuffer<unsigned short[200], unsigned char, false>"
out.append("c #define LB_PRE(v) (FRESH(v) && FRESH((v)->size_) && FRESHN((v)->data_, 400))")
out.append("c #define LB_N(v) ((unsigned long)*(v)->size_)")
k = "nop::Encoding<%s>::Size" % LBT
out.append("contract " + k + "\n  requires LB_PRE(value)\n  assigns\n  ensures RET == 1 + VT_LEN_UINT(LB_N(value) * 2UL) + LB_N(value) * 2UL\n")
out.append("job vm_fn_lb_size\n  props C06 C03\n  enforce " + k + "\n")
RK = block_read("unsigned short", 2, 32, "lb16")
k = "nop::Encoding<%s>::ReadPayload<vt::SpecReader>" % LBT
data_ok = "(%s - vt_dl >= vt_val)" % AV
good = "(vt_val <= 400 && vt_val % 2 == 0)"
cl = ["requires SR_PRE(reader) && LB_PRE(value)", GH, VAL, "requires vt_n == vt_val / 2",
      "assigns *value->size_, __CPROVER_object_whole(value->data_), reader->pos, reader->failed, reader->calls",
      "ensures reader->pos <= reader->len",
      "ensures ERR(RET) == 0 ==> (reader->failed == 0 && %s && %s && %s && LB_N(value) == vt_val / 2 && reader->pos == OLD(reader->pos) + vt_dl + vt_val)" % (HDR, good, data_ok),
      "ensures (ERR(RET) == 0 && vt_val <= 400 && vt_k < vt_val) ==> ((unsigned char*)*value->data_)[vt_k] == reader->src[OLD(reader->pos) + vt_dl + vt_k]",
      "ensures (%s && %s && !%s) ==> (ERR(RET) == E_InvalidContainerLength && LB_N(value) == OLD(LB_N(value)))" % (nofault(3), HDR, good),
      "ensures (%s && %s && %s && !%s) ==> ERR(RET) == E_ReadLimitReached" % (nofault(3), HDR, good, data_ok),
      "ensures (%s && %s && %s && %s) ==> ERR(RET) == 0" % (nofault(3), HDR, good, data_ok),
      "ensures (ERR(RET) != 0 && ERR(RET) != E_UnexpectedEncodingType && ERR(RET) != E_InvalidContainerLength) ==> reader->failed == ERR(RET)"]
out.append("contract %s\n%s" % (k, "".join("  %s\n" % c for c in cl)))
out.append("job vm_fn_lb_readpayload\n  props C02 C04 C11\n  define VT_BLOCK_MAX=(1UL<<40)\n  pre vt_p = nondet_uchar(); vt_dl = nondet_ulong(); vt_val = nondet_ulong(); vt_n = nondet_ulong(); vt_k = nondet_ulong();\n"
           "  enforce " + k + "\n  replace " + U64 + "\n  replace " + RK + "\n  timeout 1800\n"
           "  note every declared byte length (all integer classes up to 2^64-1): more than capacity or odd is InvalidContainerLength and stores nothing\n")
WKB = block_write("unsigned short", 2, 32, "lb16")
k = "nop::Encoding<%s>::WritePayload<vt::SpecWriter>" % LBT
LB = "(LB_N(value) * 2UL)"
cl = ["requires SW_PRE(writer) && LB_PRE(value)",
      "requires vt_n == LB_N(value) && vt_dl == VT_LEN_UINT(%s)" % LB,
      "assigns (LB_N(value) <= 200 && vt_dl <= writer->cap - writer->pos): __CPROVER_object_upto(writer->dst + writer->pos, vt_dl)",
      "assigns (LB_N(value) <= 200 && vt_dl > writer->cap - writer->pos && writer->pos < writer->cap): writer->dst[writer->pos]",
      "assigns (LB_N(value) <= 200 && vt_dl + %s <= writer->cap - writer->pos): __CPROVER_object_upto(writer->dst + writer->pos + vt_dl, %s)" % (LB, LB),
      "assigns writer->pos, writer->failed, writer->calls, writer->writes",
      "ensures writer->pos <= writer->cap",
      "ensures LB_N(value) > 200 ==> (ERR(RET) == E_InvalidContainerLength && writer->pos == OLD(writer->pos) && writer->writes == OLD(writer->writes))",
      "ensures ERR(RET) == 0 ==> (LB_N(value) <= 200 && writer->failed == 0 && %s >= vt_dl + %s && writer->pos == OLD(writer->pos) + vt_dl + %s && writer->dst[OLD(writer->pos)] == VT_PREFIX_UINT(%s))" % (ROOM, LB, LB, LB),
      "ensures (ERR(RET) == 0 && vt_k < vt_dl - 1) ==> writer->dst[OLD(writer->pos) + 1 + vt_k] == (unsigned char)(%s >> (8 * (vt_k & 7)))" % LB,
      "ensures (ERR(RET) == 0 && vt_k2 < %s && %s <= 400) ==> writer->dst[OLD(writer->pos) + vt_dl + vt_k2] == ((const unsigned char*)*value->data_)[vt_k2]" % (LB, LB),
      "ensures (ERR(RET) != 0 && ERR(RET) != E_InvalidContainerLength) ==> writer->failed == ERR(RET)",
      "ensures (%s && LB_N(value) <= 200 && %s >= vt_dl + %s) ==> ERR(RET) == 0" % (wnofault(3), ROOM, LB),
      "ensures (%s && LB_N(value) <= 200 && %s < vt_dl + %s) ==> ERR(RET) == E_WriteLimitReached" % (wnofault(3), ROOM, LB)]
out.append("contract %s\n%s" % (k, "".join("  %s\n" % c for c in cl)))
out.append("job vm_fn_lb_writepayload\n  props C03 C06\n  define VT_BLOCK_MAX=(1UL<<40)\n  define VT_TERM=0\n  pre vt_dl = nondet_ulong(); vt_n = nondet_ulong(); vt_k = nondet_ulong(); vt_k2 = nondet_ulong();\n"
           "  enforce " + k + "\n  replace " + WK + "\n  replace " + WKB + "\n  timeout 1800\n"
           "  note every count 0..255: above the capacity is InvalidContainerLength with nothing written, otherwise header == smallest class of the BYTE length\n")

# =========================================================================================================
# Non-integral logical buffer with a signed count member: LogicalBuffer<float[160], int>.  LOOP CONTRACTS on the element
# loops of WritePayload / ReadPayload; the count header is the UINT64 class of the count (not the class of the count
# member's type), counts above the capacity (negative ones included) are InvalidContainerLength.
LBF = "nop::LogicalBuffer<float[160], int, false>"
out.append("c #define LBF_PRE(v) (FRESH(v) && FRESH((v)->size_) && FRESHN((v)->data_, 640))")
out.append("c #define LBF_N(v) ((unsigned long)(long)*(v)->size_)")
F32W = "nop::EncodingIO<float>::Write<vt::SpecWriter>"
out.append("contract " + F32W + "\n"
  "  requires SW_PRE(writer) && FRESH(value)\n"
  "  assigns 5 <= writer->cap - writer->pos: __CPROVER_object_upto(writer->dst + writer->pos, 5)\n"
  "  assigns (5 > writer->cap - writer->pos && writer->pos < writer->cap): writer->dst[writer->pos]\n"
  "  assigns writer->pos, writer->failed, writer->calls, writer->writes\n"
  "  ensures writer->pos <= writer->cap && writer->pos >= OLD(writer->pos)\n"
  "  ensures ERR(RET) == 0 ==> (writer->failed == 0 && " + ROOM + " >= 5 && writer->pos == OLD(writer->pos) + 5 && writer->dst[OLD(writer->pos)] == FMT_F32)\n"
  "  ensures ERR(RET) == 0 ==> *(const unsigned int*)value == ((unsigned int)writer->dst[OLD(writer->pos) + 1] | ((unsigned int)writer->dst[OLD(writer->pos) + 2] << 8) | ((unsigned int)writer->dst[OLD(writer->pos) + 3] << 16) | ((unsigned int)writer->dst[OLD(writer->pos) + 4] << 24))\n"
  "  ensures ERR(RET) != 0 ==> (writer->failed == ERR(RET) && writer->pos <= OLD(writer->pos) + 1)\n"
  "  ensures (" + wnofault(2) + " && " + ROOM + " >= 5) ==> ERR(RET) == 0\n"
  "  ensures (" + wnofault(2) + " && " + ROOM + " < 5) ==> ERR(RET) == E_WriteLimitReached\n")
out.append("job vm_fn_write_f32_spec\n  props C03 C06\n  enforce " + F32W + "\n  timeout 900\n")
k = "nop::Encoding<%s>::WritePayload<vt::SpecWriter>" % LBF
out.append("contract " + k + "\n"
  "  requires SW_PRE(writer) && LBF_PRE(value) && vt_dl == VT_LEN_UINT(LBF_N(value)) && vt_pos0 == writer->pos\n"
  "  assigns __CPROVER_object_whole(writer->dst), writer->pos, writer->failed, writer->calls, writer->writes\n"
  "  ensures writer->pos <= writer->cap\n"
  "  ensures LBF_N(value) > 160 ==> (ERR(RET) == E_InvalidContainerLength && writer->pos == OLD(writer->pos) && writer->writes == OLD(writer->writes))\n"
  "  ensures ERR(RET) == 0 ==> (LBF_N(value) <= 160 && writer->failed == 0 && writer->pos == OLD(writer->pos) + vt_dl + 5 * LBF_N(value) && writer->dst[OLD(writer->pos)] == VT_PREFIX_UINT(LBF_N(value)))\n"
  "  ensures (ERR(RET) == 0 && vt_k < vt_dl - 1) ==> writer->dst[OLD(writer->pos) + 1 + vt_k] == (unsigned char)(LBF_N(value) >> (8 * (vt_k & 7)))\n"
  "  ensures (ERR(RET) == 0 && LBF_N(value) <= 160 && vt_k2 < LBF_N(value)) ==> writer->dst[OLD(writer->pos) + vt_dl + 5 * vt_k2] == FMT_F32\n"
  "  ensures (ERR(RET) != 0 && ERR(RET) != E_InvalidContainerLength) ==> writer->failed == ERR(RET)\n")
out.append("loop " + k + " #0\n"
  "  assigns i, status, __CPROVER_object_whole(writer->dst), writer->pos, writer->failed, writer->calls, writer->writes\n"
  "  invariant i <= size && size == LBF_N(value) && size <= 160\n"
  "  invariant writer->failed == 0 && writer->fail_code >= 1 && writer->fail_code <= 18 && writer->cap <= VT_MAXLEN && writer->pos <= writer->cap\n"
  "  invariant writer->pos == vt_pos0 + vt_dl + 5 * i\n"
  "  invariant writer->dst[vt_pos0] == VT_PREFIX_UINT(size) && (vt_k < vt_dl - 1 ==> writer->dst[vt_pos0 + 1 + vt_k] == (unsigned char)(size >> (8 * (vt_k & 7))))\n"
  "  invariant vt_k2 < i ==> writer->dst[vt_pos0 + vt_dl + 5 * vt_k2] == FMT_F32\n"
  "  decreases size - i\n")
out.append("job vm_fn_lbf_writepayload\n  props C03 C06 C09\n  pre vt_dl = nondet_ulong(); vt_k = nondet_ulong(); vt_k2 = nondet_ulong(); vt_pos0 = nondet_ulong();\n"
  "  enforce " + k + "\n  loops\n  replace " + WK + "\n  replace " + F32W + "\n  tier thorough\n  timeout 3600\n"
  "  note LOOP CONTRACT: every count of the int member (negative ones included); header == smallest UINT64 class of the count\n")
k = "nop::Encoding<%s>::ReadPayload<vt::SpecReader>" % LBF
out.append("contract " + k + "\n"
  "  requires SR_PRE(reader) && LBF_PRE(value) && vt_pos0 == reader->pos\n  " + GH + "\n  " + VAL + "\n"
  "  assigns *value->size_, __CPROVER_object_whole(value->data_), reader->pos, reader->failed, reader->calls\n"
  "  ensures reader->pos <= reader->len\n"
  "  ensures ERR(RET) == 0 ==> (reader->failed == 0 && " + HDR + " && vt_val <= 160 && LBF_N(value) == vt_val && reader->pos == OLD(reader->pos) + vt_dl + 5 * vt_val)\n"
  "  ensures (ERR(RET) == 0 && vt_val <= 160 && vt_k < vt_val) ==> reader->src[OLD(reader->pos) + vt_dl + 5 * vt_k] == FMT_F32\n"
  "  ensures (" + nofault(2) + " && " + HDR + " && vt_val > 160) ==> (ERR(RET) == E_InvalidContainerLength && *value->size_ == OLD(*value->size_))\n"
  "  ensures (" + nofault(2) + " && " + HDR + " && vt_val == 0) ==> (ERR(RET) == 0 && *value->size_ == 0)\n"
  "  ensures (ERR(RET) != 0 && ERR(RET) != E_UnexpectedEncodingType && ERR(RET) != E_InvalidContainerLength) ==> reader->failed == ERR(RET)\n")
out.append("loop " + k + " #0\n"
  "  assigns i, status, __CPROVER_object_whole(value->data_), reader->pos, reader->failed, reader->calls\n"
  "  invariant i <= size && size == vt_val && size <= 160\n"
  "  invariant reader->failed == 0 && reader->fail_code >= 1 && reader->fail_code <= 18 && reader->pos <= reader->len && reader->len <= VT_MAXLEN\n"
  "  invariant reader->pos == vt_pos0 + vt_dl + 5 * i\n"
  "  invariant vt_k < i ==> reader->src[vt_pos0 + vt_dl + 5 * vt_k] == FMT_F32\n"
  "  decreases size - i\n")
out.append("job vm_fn_lbf_readpayload\n  props C04 C02 C09\n  pre vt_p = nondet_uchar(); vt_dl = nondet_ulong(); vt_val = nondet_ulong(); vt_k = nondet_ulong(); vt_pos0 = nondet_ulong();\n"
  "  enforce " + k + "\n  loops\n  replace " + U64 + "\n  replace " + F32 + "\n  timeout 1800\n"
  "  note LOOP CONTRACT: the count header is accepted in every UINT64 class; counts above the capacity are InvalidContainerLength and store nothing\n")
print("\n".join(out))
