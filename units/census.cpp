// C19 — no hidden shared state.  This unit includes every public libnop header so that the
// storage census (nop2c: every variable with static or thread storage duration in the TU,
// instantiated templates included) sees all of them, instantiates ThreadLocal for several
// (T, Slot) pairs, and states the sequential ThreadLocal contract as a lemma.
#include <array>
#include <limits>
#include <new>
#include <nop/protocol.h>
#include <nop/rpc/interface.h>
#include <nop/rpc/simple_method_receiver.h>
#include <nop/rpc/simple_method_sender.h>
#include <nop/serializer.h>
#include <nop/status.h>
#include <nop/structure.h>
#include <nop/table.h>
#include <nop/types/enum_flags.h>
#include <nop/types/file_handle.h>
#include <nop/types/handle.h>
#include <nop/types/optional.h>
#include <nop/types/result.h>
#include <nop/types/thread_local.h>
#include <nop/types/variant.h>
#include <nop/utility/bounded_reader.h>
#include <nop/utility/bounded_writer.h>
#include <nop/utility/buffer_reader.h>
#include <nop/utility/buffer_writer.h>
#include <nop/utility/constexpr_buffer_writer.h>
#include <nop/utility/endian.h>
#include <nop/utility/fd_reader.h>
#include <nop/utility/fd_writer.h>
#include <nop/utility/pedantic_buffer_reader.h>
#include <nop/utility/pedantic_buffer_writer.h>
#include <nop/utility/sip_hash.h>
#include <nop/utility/stream_reader.h>
#include <nop/utility/stream_writer.h>
#include <nop/value.h>

#include "vt.h"

namespace vt {
struct SlotA;
struct SlotB;
using TLA = nop::ThreadLocal<int, SlotA>;
using TLB = nop::ThreadLocal<int, SlotB>;
using TLC = nop::ThreadLocal<std::uint8_t, SlotA>;

// Sequential contract of ThreadLocal within one thread: the first initialisation wins until
// Clear, every handle to the same (T, Slot) sees the same value, and (T, Slot) pairs are
// independent of each other.
inline void thread_local_lemma() {
  const int x = nondet<int>(), y = nondet<int>(), z = nondet<int>();
  const std::uint8_t c = nondet<std::uint8_t>();
  TLA a1(x);
  vt_check(a1.Get() == x, "first initialisation sets the value");
  TLA a2(y);
  vt_check(a2.Get() == x && a1.Get() == x, "a later initialisation of the same (T, Slot) does not replace the value");
  TLB b1(z);
  TLC c1(c);
  vt_check(b1.Get() == z && a1.Get() == x && c1.Get() == c, "a different Slot (or a different T) is a different value");
  a1.Get() = y;
  vt_check(a2.Get() == y && b1.Get() == z && c1.Get() == c, "a write is seen through every handle of that (T, Slot) and by no other");
  a1.Clear();
  a1.Initialize(z);
  vt_check(a2.Get() == z && b1.Get() == z && c1.Get() == c, "after Clear the next initialisation wins");
  a2.Initialize(y);  // no Clear in between: the slot is already initialised
  vt_check(a2.Get() == z && a1.Get() == z, "Initialize on an initialised slot does not replace the value (the first initialisation wins until Clear)");
  b1.Clear();
  b1.Initialize(x);
  vt_check(b1.Get() == x && a2.Get() == z, "Clear in one slot is not observable in another");
  b1.Initialize(y);
  vt_check(b1.Get() == x, "a second Initialize after Clear + Initialize does not replace the value either");
  vt_cover(x != y && y != z, "distinct values reached");
}
}  // namespace vt

VT_HARNESS(h_thread_local) { vt::thread_local_lemma(); }
