// Modular, UNBOUNDED proofs for the byte-counted growable containers (integral std::vector, std::basic_string):
// ReadPayload / WritePayload are enforced against contracts with every callee (uint64 codec over the reference
// reader / writer, Ensure, resize, block Read / Write) REPLACED by its contract, so the element count is symbolic up to
// 2^38 and nothing is unrolled.  The x_* wrappers only force instantiation (units/vecmod.spec.py has the contracts).
#include <array>
#include <limits>
#include <new>
#include <map>
#include <string>
#include <unordered_map>
#include <vector>
#include <nop/base/encoding.h>
#include <nop/base/logical_buffer.h>
#include <nop/base/map.h>
#include <nop/base/serializer.h>
#include <nop/base/string.h>
#include <nop/base/vector.h>

#include "spec_io.h"
#include "vt.h"

namespace vt {
using VecU8 = std::vector<std::uint8_t>;
using VecU32 = std::vector<std::uint32_t>;
using Str = std::string;
using WStr = std::wstring;
using VecF = std::vector<float>;   // non-integral elements: ARY, element-wise loop
}  // namespace vt

nop::Status<void> x_rd_vecf(vt::VecF* v, vt::SpecReader* r) { return nop::Encoding<vt::VecF>::ReadPayload(nop::EncodingByte::Array, v, r); }
using MapT = std::map<std::uint16_t, std::uint8_t>;
using UMapT = std::unordered_map<std::uint16_t, std::uint8_t>;
nop::Status<void> x_rd_map(MapT* v, vt::SpecReader* r) { return nop::Encoding<MapT>::ReadPayload(nop::EncodingByte::Map, v, r); }
nop::Status<void> x_rd_umap(UMapT* v, vt::SpecReader* r) { return nop::Encoding<UMapT>::ReadPayload(nop::EncodingByte::Map, v, r); }
nop::Status<void> x_rd_f32(float* v, vt::SpecReader* r) { return nop::Encoding<float>::Read(v, r); }

#define VT_VM(T, t)                                                                                                   \
  nop::Status<void> x_rd_##t(T* v, vt::SpecReader* r) { return nop::Encoding<T>::ReadPayload(nop::EncodingByte::Binary, v, r); } \
  nop::Status<void> x_wr_##t(const T* v, vt::SpecWriter* w) { return nop::Encoding<T>::WritePayload(nop::EncodingByte::Binary, *v, w); } \
  nop::Status<void> x_read_##t(T* v, vt::SpecReader* r) { return nop::Encoding<T>::Read(v, r); }                      \
  nop::Status<void> x_write_##t(const T* v, vt::SpecWriter* w) { return nop::Encoding<T>::Write(*v, w); }       \
  nop::Status<void> x_ser_##t(const T* v, vt::SpecWriter* w) { return nop::SerializerCommon::Write(*v, w); }     \
  std::size_t x_size_##t(const T* v) { return nop::Encoding<T>::Size(*v); }

VT_VM(vt::VecU8, vecu8)
VT_VM(vt::VecU32, vecu32)
VT_VM(vt::Str, str)
VT_VM(vt::WStr, wstr)

// logical buffer (array + count members) with multi-byte elements and a NARROW count member: 200 x uint16_t counted by a
// uint8_t — byte lengths (up to 510) do not fit the count member's type
using LB16 = nop::LogicalBuffer<std::uint16_t[200], std::uint8_t, false>;
std::size_t x_lb_size(const LB16* v) { return nop::Encoding<LB16>::Size(*v); }
nop::Status<void> x_lb_rd(LB16* v, vt::SpecReader* r) { return nop::Encoding<LB16>::ReadPayload(nop::EncodingByte::Binary, v, r); }
nop::Status<void> x_lb_wr(const LB16* v, vt::SpecWriter* w) { return nop::Encoding<LB16>::WritePayload(nop::EncodingByte::Binary, *v, w); }

// logical buffer with NON-integral elements and a SIGNED count member: 160 x float counted by an int (ARY encoding,
// element-wise loops; the count header must be the UINT64 class of the count, whatever the count member's type)
using LBF = nop::LogicalBuffer<float[160], int, false>;
nop::Status<void> x_lbf_rd(LBF* v, vt::SpecReader* r) { return nop::Encoding<LBF>::ReadPayload(nop::EncodingByte::Array, v, r); }
nop::Status<void> x_lbf_wr(const LBF* v, vt::SpecWriter* w) { return nop::Encoding<LBF>::WritePayload(nop::EncodingByte::Array, *v, w); }
nop::Status<void> x_wr_f32(const float* v, vt::SpecWriter* w) { return nop::Encoding<float>::Write(*v, w); }
