// C12 — Variant holds exactly one live alternative or none.  One-step induction per
// operation (see units/values.cpp for the scheme): operand states built through the public
// API with symbolic alternative and value; alternatives Tracked<0>, Tracked<1> (lifetime
// ghosts) and int (trivial).
#include <array>
#include <limits>
#include <new>
#include <nop/types/variant.h>

#include "tracked.h"
#include "vt.h"

namespace vt {

using T0 = Tracked<0>;
using T1 = Tracked<1>;
using V = nop::Variant<T0, T1, int>;

// converting assignment / construction: Tag converts to exactly one alternative (Conv), which tracks its lifetime
struct Tag {};
struct Conv : Tracked<2> {
  Conv(Tag) : Tracked<2>(99) {}
};
using W = nop::Variant<Conv, int>;

inline void variant_convert_ops() {
  ghost_reset();
  {
    W w;
    const bool start_int = nondet<bool>();
    const int x = nondet<int>();
    if (start_int) w = x;
    const std::uint8_t op = nondet<std::uint8_t>();
    g_watch_obj = &w;
    g_watch_size = sizeof w;
    g_watch_index = &w.index_;
    if (op == 0) {
      w = Tag{};  // converting assignment: the Conv alternative is constructed from the Tag
      vt_check(w.index() == 0 && w.get<Conv>() != nullptr && w.get<Conv>()->value == 99 && w.get<int>() == nullptr, "converting assignment activates the alternative the value converts to");
      vt_check(g_live == 1, "exactly one element alive after a converting assignment");
      w = Tag{};  // again, onto the same alternative
      vt_check(w.index() == 0 && g_live == 1, "converting assignment onto the same alternative keeps exactly one element alive");
      w = x;
      vt_check(w.index() == 1 && *w.get<int>() == x && g_live == 0, "assignment of another alternative destroys the converted element");
    } else if (op == 1) {
      W c{Tag{}};  // converting construction
      vt_check(c.index() == 0 && c.get<Conv>()->value == 99 && g_live == 1, "converting construction");
      W d(c);
      vt_check(d.index() == 0 && d.get<Conv>()->value == 99 && g_live == 2, "copy of a converted element compares equal to its source");
    }
    g_watch_obj = nullptr;
    vt_check(g_ctor_while_indexed == 0, "an element constructor only ever runs while the Variant reports empty (a throwing constructor leaves it empty)");
    vt_cover(op == 0 && start_int, "converting assignment over another alternative reached");
  }
  vt_check(g_live == 0 && g_ctor == g_dtor && g_bad == 0, "converted elements are destroyed exactly once");
}

inline void make_variant(V* v, int* k, int* val) {
  *k = static_cast<int>(nondet<std::uint8_t>() % 4) - 1;  // -1 empty, 0, 1, 2
  *val = nondet<int>();
  if (*k == 0) *v = T0(*val);
  else if (*k == 1) *v = T1(*val);
  else if (*k == 2) *v = *val;
}

struct Probe {
  int calls, which, value;
  void operator()(const T0& e) { calls += 1; which = 0; value = e.value; }
  void operator()(const T1& e) { calls += 1; which = 1; value = e.value; }
  void operator()(const int& e) { calls += 1; which = 2; value = e; }
  void operator()(nop::EmptyVariant) { calls += 1; which = -1; value = 0; }
};

// the representation invariant as seen through the API, and the abstract value
inline void check_variant(const V& v, int k, int val) {
  vt_check(v.index() == k, "index() names the active alternative (-1 when empty)");
  vt_check(v.empty() == (k == -1), "empty() <=> index() == -1");
  vt_check((v.get<T0>() != nullptr) == (k == 0) && (v.get<T1>() != nullptr) == (k == 1) && (v.get<int>() != nullptr) == (k == 2), "get<T>() is non-null exactly when T is active");
  vt_check((v.get<0>() != nullptr) == (k == 0) && (v.get<1>() != nullptr) == (k == 1) && (v.get<2>() != nullptr) == (k == 2), "get<I>() is non-null exactly when alternative I is active");
  vt_check(v.is<T0>() == (k == 0) && v.is<T1>() == (k == 1) && v.is<int>() == (k == 2), "is<T>() <=> T active");
  Probe p = {0, -2, 0};
  v.Visit(p);
  vt_check(p.calls == 1, "Visit calls the visitor exactly once");
  vt_check(p.which == k, "Visit passes the active element (EmptyVariant when empty)");
  if (k >= 0) vt_check(p.value == val, "the active element carries the expected value");
  if (k == 0) vt_check(v.get<T0>()->alive == kAlive, "the active element is alive");
  if (k == 1) vt_check(v.get<T1>()->alive == kAlive, "the active element is alive");
}
inline int live_of(int k) { return (k == 0 || k == 1) ? 1 : 0; }

inline void variant_ops() {
  ghost_reset();
  {
    V a, b;
    vt_check(a.empty() && a.index() == -1, "default-constructed Variant is empty");
    int ka, kb, va, vb;
    make_variant(&a, &ka, &va);
    make_variant(&b, &kb, &vb);
    check_variant(a, ka, va);
    check_variant(b, kb, vb);
    vt_check(g_live == live_of(ka) + live_of(kb), "live elements == Variants holding a tracked alternative");
    const int x = nondet<int>();
    const std::int32_t target = nondet<std::int32_t>();
    const std::uint8_t op = nondet<std::uint8_t>();
    const int ka0 = ka, kb0 = kb;
    // throw-point watch on a (see tracked.h): armed for the operations that re-construct a's element
    g_watch_obj = &a;
    g_watch_size = sizeof a;
    g_watch_index = &a.index_;
    if (op == 0) {  // copy assignment
      a = b;
      ka = kb; va = vb;
    } else if (op == 1) {  // move assignment: the target takes the source's alternative and value
      a = std::move(b);
      ka = kb; va = vb;
    } else if (op == 2) {  // self assignment
      a = a;
    } else if (op == 3) {  // element assignment, alternative 0
      a = T0(x);
      ka = 0; va = x;
    } else if (op == 4) {  // element assignment, alternative 1 from an lvalue
      T1 t(x);
      a = t;
      ka = 1; va = x;
    } else if (op == 5) {  // element assignment, trivial alternative
      a = x;
      ka = 2; va = x;
    } else if (op == 6) {
      a = nop::EmptyVariant{};
      ka = -1;
    } else if (op == 7) {  // Become with any 32-bit index
      a.Become(target);
      if (target != ka0) {
        if (target >= 0 && target <= 2) { ka = target; va = 0; }  // default-constructed alternative
        else ka = -1;                                              // out of range leaves it empty
      }
    } else if (op == 8) {  // copy construction
      V c(b);
      check_variant(c, kb, vb);
      vt_check(g_live == live_of(ka) + 2 * live_of(kb), "copy construction constructs exactly one more element");
    } else if (op == 9) {  // move construction
      V c(std::move(b));
      check_variant(c, kb, vb);
    } else if (op == 10) {  // element construction
      V c{T0(x)}, d{T1(x)}, e{x}, f{nop::EmptyVariant{}};
      check_variant(c, 0, x);
      check_variant(d, 1, x);
      check_variant(e, 2, x);
      check_variant(f, -1, 0);
    } else if (op == 11) {  // mutation through get / Visit keeps the alternative
      if (ka == 0) { a.get<T0>()->value = x; va = x; }
      if (ka == 2) { *a.get<2>() = x; va = x; }
    }
    g_watch_obj = nullptr;
    vt_check(g_ctor_while_indexed == 0, "an element constructor only ever runs while the Variant reports empty (a throwing constructor leaves it empty)");
    check_variant(a, ka, va);
    check_variant(b, kb, vb);  // the source of a move keeps a valid (same-alternative) state
    vt_check(g_live == live_of(ka) + live_of(kb), "after the operation: live elements == Variants holding a tracked alternative");
    vt_cover(op == 0 && ka0 == 0 && kb0 == 1, "assignment between different alternatives reached");
    vt_cover(op == 0 && ka0 == 1 && kb0 == 1, "assignment between equal alternatives reached");
    vt_cover(op == 7 && target == 1 && ka0 == 0, "Become to another alternative reached");
    vt_cover(op == 7 && target > 2, "Become out of range reached");
    vt_cover(op == 1 && kb0 == -1 && ka0 == 0, "move-assigning an empty Variant over a full one reached");
  }
  vt_check(g_live == 0 && g_ctor == g_dtor, "every element the Variants constructed was destroyed exactly once");
  vt_check(g_bad == 0, "no element used, assigned or destroyed while not alive");
}

// assignment from a Variant over a DIFFERENT list of element types (each convertible to an element of the target)
using V2 = nop::Variant<T1, int>;
inline void variant_cross_ops() {
  ghost_reset();
  {
    V a;
    int ka, va;
    make_variant(&a, &ka, &va);
    V2 o;
    const std::uint8_t ko = nondet<std::uint8_t>() % 3;  // 0: empty, 1: T1, 2: int
    const int vo = nondet<int>();
    if (ko == 1) o = T1(vo);
    else if (ko == 2) o = vo;
    vt_check(g_live == live_of(ka) + (ko == 1 ? 1 : 0), "operand states of the cross-type assignment");
    const bool move = nondet<bool>();
    g_watch_obj = &a;
    g_watch_size = sizeof a;
    g_watch_index = &a.index_;
    if (move) a = std::move(o);
    else a = o;
    g_watch_obj = nullptr;
    vt_check(g_ctor_while_indexed == 0, "an element constructor only ever runs while the Variant reports empty (a throwing constructor leaves it empty)");
    const int k = ko == 0 ? -1 : (ko == 1 ? 1 : 2);
    check_variant(a, k, vo);
    vt_check(g_live == live_of(k) + (ko == 1 ? 1 : 0), "after a cross-type assignment: exactly one live element per Variant holding a tracked alternative");
    vt_cover(ko == 1 && ka == 0, "cross-type assignment over another tracked alternative reached");
    vt_cover(ko == 0 && ka == 1 && move, "cross-type move of an empty Variant over a full one reached");
  }
  vt_check(g_live == 0 && g_ctor == g_dtor && g_bad == 0, "every element was destroyed exactly once");
}

// single-alternative Variant: the terminal case of the recursive storage handles every index itself
using U = nop::Variant<T0>;
inline void variant_single_ops() {
  ghost_reset();
  {
    U a;
    const bool full = nondet<bool>();
    const int val = nondet<int>();
    if (full) a = T0(val);
    int k = full ? 0 : -1;
    int v = val;
    vt_check(a.index() == k && g_live == (full ? 1 : 0), "operand state of the single-alternative Variant");
    const std::int32_t target = nondet<std::int32_t>();
    const std::uint8_t op = nondet<std::uint8_t>();
    if (op == 0) {
      a.Become(target);
      if (target != k) {
        if (target == 0) { k = 0; v = 0; }
        else k = -1;  // every other index, negative ones included, leaves it empty
      }
    } else if (op == 1) {
      a = nop::EmptyVariant{};
      k = -1;
    } else if (op == 2) {
      U b(a);
      vt_check(b.index() == k && g_live == 2 * (k == 0 ? 1 : 0), "copy of a single-alternative Variant");
    }
    vt_check(a.index() == k && a.empty() == (k == -1), "index() names the active alternative (-1 when empty)");
    vt_check((a.get<T0>() != nullptr) == (k == 0), "get<T>() is non-null exactly when T is active");
    if (k == 0) vt_check(a.get<T0>()->value == v && a.get<T0>()->alive == kAlive, "the active element is alive and carries the expected value");
    vt_check(g_live == (k == 0 ? 1 : 0), "after the operation: live elements == Variants holding a tracked alternative");
    vt_cover(op == 0 && full && target < -1, "Become to an invalid negative index over a full Variant reached");
    vt_cover(op == 0 && !full && target == 0, "Become from empty reached");
  }
  vt_check(g_live == 0 && g_ctor == g_dtor && g_bad == 0, "every element the Variant constructed was destroyed exactly once");
}

}  // namespace vt

VT_HARNESS(h_variant_cross) { vt::variant_cross_ops(); }
VT_HARNESS(h_variant_single) { vt::variant_single_ops(); }
VT_HARNESS(h_variant_ops) { vt::variant_ops(); }
VT_HARNESS(h_variant_convert) { vt::variant_convert_ops(); }
