// C18 — SipHash::Compute is standard SipHash-2-4, at compile time and at run time.
#include <array>
#include <limits>
#include <nop/rpc/interface.h>
#include <nop/table.h>
#include <nop/utility/sip_hash.h>

#include "siphash_ref.h"
#include "vt.h"

namespace vt {

// (a) the pieces, full domain ------------------------------------------------------------
inline void round_lemma() {
  std::uint64_t v[4] = {nondet<std::uint64_t>(), nondet<std::uint64_t>(), nondet<std::uint64_t>(), nondet<std::uint64_t>()};
  vt_sip_state s = {v[0], v[1], v[2], v[3]};
  nop::SipHash::Round(v);
  s = vt_sipround(s);
  vt_check(v[0] == s.v0 && v[1] == s.v1 && v[2] == s.v2 && v[3] == s.v3, "SipHash::Round == SIPROUND of the SipHash paper");
  vt_cover(true, "round lemma end");
}

inline void rotl_lemma() {
  const std::uint64_t x = nondet<std::uint64_t>();
  vt_check(nop::SipHash::RotateLeft(x, 13) == VT_ROTL(x, 13), "RotateLeft 13");
  vt_check(nop::SipHash::RotateLeft(x, 16) == VT_ROTL(x, 16), "RotateLeft 16");
  vt_check(nop::SipHash::RotateLeft(x, 17) == VT_ROTL(x, 17), "RotateLeft 17");
  vt_check(nop::SipHash::RotateLeft(x, 21) == VT_ROTL(x, 21), "RotateLeft 21");
  vt_check(nop::SipHash::RotateLeft(x, 32) == VT_ROTL(x, 32), "RotateLeft 32");
  vt_cover(true, "rotl lemma end");
}

template <typename T>
void readblock_lemma() {
  T buf[16];
  for (int i = 0; i < 16; i++) buf[i] = nondet<T>();
  const std::size_t off = nondet<std::uint8_t>();
  vt_assume(off <= 8);
  unsigned char raw[16];
  std::memcpy(raw, buf, 16);
  vt_check(nop::SipHash::ReadBlock(nop::BlockReader<T>(buf, 16), off) == vt_u8to64_le(raw + off),
           "ReadBlock == little-endian load of the 8 bytes (U8TO64_LE)");
  vt_cover(off == 8, "offset 8 reached");
}

// (d) compile time == run time == reference, on declared names ------------------------------
struct TableAscii {
  nop::Entry<int, 0> a;
  NOP_TABLE_NS("io.github.eieio.vt.TableAscii", TableAscii, a);
};
struct TableUtf8 {
  nop::Entry<int, 0> a;
  NOP_TABLE_NS("caf\xc3\xa9.\xe8\xa1\xa8", TableUtf8, a);
};
// a name with an embedded NUL (e.g. a versioned name built from pieces): every byte of the literal counts
struct TableNul {
  nop::Entry<int, 0> a;
  NOP_TABLE_NS("vt.T\0v2", TableNul, a);
};

template <std::size_t N>
void name_lemma(const char (&name)[N], std::uint64_t compile_time_hash) {
  // the macro hashes the whole array including the terminating NUL
  const std::uint64_t run_time = nop::SipHash::Compute(nop::BlockReader<char>(name, N), nop::kNopTableKey0, nop::kNopTableKey1);
  unsigned char raw[N];
  std::memcpy(raw, name, N);
  vt_check(run_time == compile_time_hash, "hash computed at run time == the constant the compiler evaluated");
  vt_check(compile_time_hash == vt_siphash24(raw, N, nop::kNopTableKey0, nop::kNopTableKey1), "table hash == SipHash-2-4 of the name bytes under the table keys");
  vt_cover(true, "name lemma end");
}

// interface hash and method selectors (64- and 32-bit selector flavours)
struct Iface64 : nop::Interface<Iface64> {
  NOP_INTERFACE("io.github.eieio.vt.Iface64");
  NOP_METHOD(Add, int(int, int));
  NOP_METHOD(Frobnicate, void(int));
  NOP_INTERFACE_API(Add, Frobnicate);
};
struct Iface32 : nop::Interface<Iface32> {
  NOP_INTERFACE32("io.github.eieio.vt.Iface32");
  NOP_METHOD(Add, int(int, int));
  NOP_METHOD(Frobnicate, void(int));
  NOP_INTERFACE_API(Add, Frobnicate);
};

template <typename Sel, std::size_t NI, std::size_t NM>
void selector_lemma(const char (&iface_name)[NI], const char (&method_name)[NM], std::uint64_t ct_iface_hash, std::uint64_t ct_selector) {
  unsigned char raw_i[NI], raw_m[NM];
  std::memcpy(raw_i, iface_name, NI);
  std::memcpy(raw_m, method_name, NM);
  const std::uint64_t ref_hash = vt_siphash24(raw_i, NI, nop::kNopInterfaceKey0, nop::kNopInterfaceKey1);
  vt_check(ct_iface_hash == ref_hash, "interface hash == SipHash-2-4 of the interface name under the interface keys");
  const Sel ref_sel = static_cast<Sel>(vt_siphash24(raw_m, NM, ref_hash, nop::kNopInterfaceKey1));
  vt_check(ct_selector == static_cast<std::uint64_t>(ref_sel), "method selector == SipHash-2-4 of the method name keyed with the full interface hash (truncated to the selector type)");
  const Sel run_time = nop::ComputeMethodSelector<Sel>(method_name, ct_iface_hash);
  vt_check(static_cast<std::uint64_t>(run_time) == ct_selector, "selector computed at run time == the constant the compiler evaluated");
  vt_cover(true, "selector lemma end");
}

std::uint64_t x_sip_u8(const std::uint8_t* p, std::size_t n, std::uint64_t k0, std::uint64_t k1) {
  return nop::SipHash::Compute(nop::BlockReader<std::uint8_t>(p, n), k0, k1);
}
std::uint64_t x_sip_char(const char* p, std::size_t n, std::uint64_t k0, std::uint64_t k1) {
  return nop::SipHash::Compute(nop::BlockReader<char>(p, n), k0, k1);
}

}  // namespace vt

VT_HARNESS(h_sip_round) { vt::round_lemma(); }
VT_HARNESS(h_sip_rotl) { vt::rotl_lemma(); }
VT_HARNESS(h_sip_readblock_u8) { vt::readblock_lemma<std::uint8_t>(); }
VT_HARNESS(h_sip_readblock_char) { vt::readblock_lemma<char>(); }
VT_HARNESS(h_sip_name_ascii) {
  const char name[] = "io.github.eieio.vt.TableAscii";
  vt::name_lemma(name, nop::EntryListTraits<vt::TableAscii>::EntryList::Hash);
}
VT_HARNESS(h_sip_name_nul) {
  const char name[] = "vt.T\0v2";
  vt::name_lemma(name, nop::EntryListTraits<vt::TableNul>::EntryList::Hash);
}
VT_HARNESS(h_sip_name_utf8) {
  const char name[] = "caf\xc3\xa9.\xe8\xa1\xa8";
  vt::name_lemma(name, nop::EntryListTraits<vt::TableUtf8>::EntryList::Hash);
}
VT_HARNESS(h_sip_sel64_add) {
  const char in[] = "io.github.eieio.vt.Iface64";
  const char mn[] = "Add";
  vt::selector_lemma<std::uint64_t>(in, mn, vt::Iface64::NOP__INTERFACE::Hash, vt::Iface64::Add::Selector);
}
VT_HARNESS(h_sip_sel64_frob) {
  const char in[] = "io.github.eieio.vt.Iface64";
  const char mn[] = "Frobnicate";
  vt::selector_lemma<std::uint64_t>(in, mn, vt::Iface64::NOP__INTERFACE::Hash, vt::Iface64::Frobnicate::Selector);
}
VT_HARNESS(h_sip_sel32_add) {
  const char in[] = "io.github.eieio.vt.Iface32";
  const char mn[] = "Add";
  vt::selector_lemma<std::uint32_t>(in, mn, vt::Iface32::NOP__INTERFACE::Hash, vt::Iface32::Add::Selector);
}
VT_HARNESS(h_sip_sel32_frob) {
  const char in[] = "io.github.eieio.vt.Iface32";
  const char mn[] = "Frobnicate";
  vt::selector_lemma<std::uint32_t>(in, mn, vt::Iface32::NOP__INTERFACE::Hash, vt::Iface32::Frobnicate::Selector);
}
