#!/usr/bin/env python3
# jobs for units/codec_comp.cpp (fixed-shape composites): every lemma x type x reader/writer kit.
# Byte loops have constant trip count MAXN; element loops are constant too: complete unwinding.
types = [("arru16", 10), ("arrf32", 14), ("pair", 14), ("tuple", 11), ("s1", 18), ("s2", 20), ("s3", 12), ("s4", 12), ("v1", 5), ("opti32", 7), ("resu16", 8), ("var", 9), ("optp1", 7), ("varp1", 9), ("arrp1", 12)]
out = []
extra = ""
# jobs that did not finish within 900 s / 14 GB on this image (measured in the thorough tier); they decided nothing,
# so they are not registered.  The same lemma over the same type is still decided for the other readers where listed.
DROPPED = {
    "trunc_s2_spec": "solver out of memory (14 GB)", "trunc_s2_ped": "timeout", "trunc_s2_buf": "timeout", "trunc_s2_bnd": "timeout",
    # measured again in the last thorough run, also when run alone: the solver exhausts the 14 GB limit
    "dec_s2_spec": "solver out of memory (14 GB)", "dec_s2_ped": "solver out of memory (14 GB)", "dec_s2_buf": "solver out of memory (14 GB)", "dec_s2_bnd": "solver out of memory (14 GB)",
}
def job(name, props, unwind, tier="quick"):
    if name in DROPPED:
        return
    if "_s2" in name and not name.startswith("enc_"):
        tier = "thorough"  # the nested non-integral logical buffer costs minutes per job
    if name in ("dec_s1_ped", "rt_s1_spec_spec", "trunc_s1_spec"):
        tier = "thorough"  # the s1 variants cost 2-5 minutes each; one reader/writer pairing stays quick
    out.append("job %s\n  props %s\n  harness h_%s\n  unwind %d complete constant trip count <= MAXN\n%s  tier %s\n  timeout 900\n" % ("cc_" + name, props, name, unwind, extra, tier))
for t, n in types:
    u = n + 2
    # element loops of logical buffers run at most `capacity` times (larger counts are rejected first):
    # a tight per-loop bound, discharged by the unwinding assertion
    extra = "  unwindset LogicalBuffer 5\n" if t in ("s1", "s2", "s3", "s4") else ""
    job("enc_%s" % t, "C03 C06", u)
    job("dec_%s_spec" % t, "C04 C11", u)
    job("dec_%s_ped" % t, "C04 C02 C11", u)
    job("dec_%s_buf" % t, "C04 C02 C11", u, "thorough")
    job("dec_%s_bnd" % t, "C04 C02 C11", u, "thorough")
    job("rt_%s_spec_spec" % t, "C01", u)
    job("rt_%s_ped_ped" % t, "C01", u)
    job("rt_%s_buf_buf" % t, "C01", u, "thorough")
    job("rt_%s_bnd_bnd" % t, "C01", u, "thorough")
    job("trunc_%s_spec" % t, "C05", u)
    job("trunc_%s_ped" % t, "C05", u)
    job("trunc_%s_buf" % t, "C05", u, "thorough")
    job("trunc_%s_bnd" % t, "C05", u, "thorough")
    job("cap_%s_bw" % t, "C06", u)
    job("cap_%s_pw" % t, "C06", u, "thorough")
    job("cap_%s_bdw" % t, "C06", u, "thorough")
    job("faultw_%s" % t, "C10", u)
    job("faultr_%s" % t, "C10", u)
print("\n".join(out))
