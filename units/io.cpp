// Stream and fd readers / writers (C17 conformance, C05 truncation, C01 round trip) over the
// assumed models of the iostream interface (spec/stream_model.h) and of read/write/close
// (spec/posix_model.h).  Natively the stream adapter wraps the real std::stringstream /
// std::fstream and the POSIX model interposes libc for the model descriptors.
#include <array>
#include <limits>
#include <new>
#include <nop/base/encoding.h>
#include <nop/base/logical_buffer.h>
#include <nop/base/members.h>
#include <nop/base/serializer.h>
#include <nop/base/table.h>
#include <nop/structure.h>
#include <nop/table.h>
#include <nop/types/file_handle.h>
#include <nop/utility/fd_reader.h>
#include <nop/utility/fd_writer.h>
#include <nop/utility/stream_reader.h>
#include <nop/utility/stream_writer.h>

#include "lemmas.h"
#include "posix_model.h"
#include "stream_model.h"

namespace vt {

using StreamR = nop::StreamReader<SpecIStream>;
using StreamW = nop::StreamWriter<SpecOStream>;
constexpr std::size_t kNever = ~static_cast<std::size_t>(0);

template <>
struct ReaderKit<StreamR> {
  using Reader = StreamR;
  alignas(StreamR) unsigned char raw[sizeof(StreamR)];
  StreamR* r;
  void init(const std::uint8_t* b, std::size_t n) {
    const bool file_like = nondet<bool>();  // stringbuf-like or filebuf-like seeking
    r = new (raw) StreamR(b, n, file_like, kNever);
  }
  Reader* reader() { return r; }
  std::size_t consumed() { return r->stream().consumed(); }
};
template <>
struct WriterKit<StreamW> {
  using Writer = StreamW;
  alignas(StreamW) unsigned char raw[sizeof(StreamW)];
  StreamW* w;
  void init(std::uint8_t* b, std::size_t n) { w = new (raw) StreamW(b, n, kNever); }
  Writer* writer() { return w; }
  std::size_t size() { return w->stream().produced(); }
};
template <>
struct ReaderKit<nop::FdReader> {
  using Reader = nop::FdReader;
  alignas(nop::FdReader) unsigned char raw[sizeof(nop::FdReader)];
  nop::FdReader* r;
  void init(const std::uint8_t* b, std::size_t n) {
    const unsigned long intr_at = nondet<std::uint8_t>();    // a signal may interrupt any one call: must be transparent
    const unsigned long chunk = nondet<std::uint8_t>() % 4;  // short reads (0 = unlimited)
    vt_fd_source(b, n, intr_at, kNever, chunk);
    r = new (raw) nop::FdReader(VT_FD_SRC);
  }
  Reader* reader() { return r; }
  std::size_t consumed() { return vt_fd_consumed(); }
};
template <>
struct WriterKit<nop::FdWriter> {
  using Writer = nop::FdWriter;
  alignas(nop::FdWriter) unsigned char raw[sizeof(nop::FdWriter)];
  nop::FdWriter* w;
  void init(std::uint8_t* b, std::size_t n) {
    const unsigned long intr_at = nondet<std::uint8_t>();
    vt_fd_sink(b, n, intr_at, kNever, 0);
    w = new (raw) nop::FdWriter(VT_FD_DST);
  }
  Writer* writer() { return w; }
  std::size_t size() { return vt_fd_produced(); }
};

struct S1 {
  std::uint32_t a;
  std::int16_t b;
  std::uint8_t data[4];
  std::uint8_t n;
  NOP_STRUCTURE(S1, a, b, (data, n));
};
template <>
struct Fmt<S1> {
  static void enc(fmt::Out& o, const S1& v) {
    fmt::enc_header(o, FMT_STU, 3);
    Fmt<std::uint32_t>::enc(o, v.a);
    Fmt<std::int16_t>::enc(o, v.b);
    fmt::enc_header(o, FMT_BIN, v.n);
    for (std::size_t i = 0; i < 4; i++)
      if (i < v.n) fmt::put(o, v.data[i]);
  }
  static bool dec(fmt::In& in, S1* v) {
    if (!fmt::dec_header_fixed(in, FMT_STU, 3, nop::ErrorStatus::InvalidMemberCount)) return false;
    if (!Fmt<std::uint32_t>::dec(in, &v->a) || !Fmt<std::int16_t>::dec(in, &v->b)) return false;
    if (!fmt::expect_prefix(in, FMT_BIN)) return false;
    std::uint64_t len;
    if (!fmt::dec_uint(in, 8, &len)) return false;
    if (len > 4) return fmt::fail(in, nop::ErrorStatus::InvalidContainerLength);
    for (std::size_t i = 0; i < 4; i++)
      if (i < len && !fmt::get_raw(in, &v->data[i])) return false;
    v->n = static_cast<std::uint8_t>(len);
    return true;
  }
};
template <>
struct Gen<S1> {
  static void make(S1* v) {
    v->a = nondet<std::uint32_t>();
    v->b = nondet<std::int16_t>();
    for (int i = 0; i < 4; i++) v->data[i] = nondet<std::uint8_t>();
    v->n = nondet<std::uint8_t>();
    vt_assume(v->n <= 4);
  }
  static bool eq(const S1& a, const S1& b) {
    bool r = a.a == b.a && a.b == b.b && a.n == b.n;
    for (std::size_t i = 0; i < 4; i++)
      if (i < a.n) r = r && a.data[i] == b.data[i];
    return r;
  }
};
// a reading table definition that skips an unknown entry and a deleted one (C05: cuts inside skipped entries / padding)
struct TR {
  nop::Entry<std::uint8_t, 1> y;
  nop::Entry<std::uint32_t, 0, nop::DeletedEntry> x;
  NOP_TABLE_HASH(7, TR, y, x);
};
template <>
struct Fmt<TR> {
  static void enc(fmt::Out& o, const TR& v) {
    fmt::put(o, FMT_TAB);
    fmt::enc_uint(o, 7);
    fmt::enc_uint(o, v.y.empty() ? 0 : 1);
    fmt::enc_entry(o, 1, v.y, 0);
  }
  static bool dec(fmt::In& in, TR* v) {
    v->y.clear();
    std::uint64_t count;
    if (!fmt::dec_table_header(in, 7, &count)) return false;
    for (std::uint64_t i = 0; i < count; i++) {
      std::uint64_t id;
      if (!fmt::dec_uint(in, 8, &id)) return false;
      if (id == 1) { if (!fmt::dec_entry<std::uint8_t>(in, &v->y)) return false; }
      else if (!fmt::skip_entry(in)) return false;
    }
    return true;
  }
};
template <>
struct Gen<TR> {
  static void make(TR* v) {
    if (nondet<bool>()) v->y = nondet<std::uint8_t>(); else v->y.clear();
  }
  static bool eq(const TR& a, const TR& b) { return a.y == b.y; }
};

template <typename R>
nop::Status<void> skip_of(R* r, std::size_t m) { return r->Skip(m); }
inline nop::Status<void> skip_of(nop::FdReader*, std::size_t) { return {}; }
template <typename W>
nop::Status<void> wskip_of(W* w, std::size_t m, std::uint8_t v) { return w->Skip(m, v); }
inline nop::Status<void> wskip_of(nop::FdWriter*, std::size_t, std::uint8_t) { return {}; }

// ------------------------------------------------------------- C17: reader conformance
// R and the reference byte source over the same bytes, three symbolic primitive calls in lock
// step: same bytes delivered in the same order, failing at the same call, never a byte that is
// not in the source.  Equivalence is required up to and including the first failing call.
template <typename R, bool HAS_SKIP>
void lemma_reader_conforms() {
  const std::size_t n = nondet<std::uint8_t>();
  vt_assume(n <= 6);
  std::uint8_t store[6];
  std::uint8_t* buf = arbitrary_bytes_fixed<6>(store, n);
  ReaderKit<R> k;
  k.init(buf, n);
  SpecReader ref;
  ref.Init(buf, n);
  bool stopped = false;
  for (int step = 0; step < 3; step++) {
    if (stopped) continue;
    const std::uint8_t op = nondet<std::uint8_t>() % 3;
    const std::size_t m = nondet<std::uint8_t>() % 4;
    bool ok_r, ok_ref;
    int err_r = 0;
    if (op == 0) {
      std::uint8_t x = 0, y = 0;
      auto a = k.reader()->Read(&x);
      auto b = ref.Read(&y);
      ok_r = static_cast<bool>(a); ok_ref = static_cast<bool>(b); err_r = static_cast<int>(a.error());
      if (ok_r && ok_ref) vt_check(x == y, "single-byte Read delivers the next source byte");
    } else if (op == 1) {
      std::uint8_t x[4] = {0, 0, 0, 0}, y[4] = {0, 0, 0, 0};
      auto a = k.reader()->Read(&x[0], &x[0] + m);
      auto b = ref.Read(&y[0], &y[0] + m);
      ok_r = static_cast<bool>(a); ok_ref = static_cast<bool>(b); err_r = static_cast<int>(a.error());
      if (ok_r && ok_ref) vt_check(x[0] == y[0] && x[1] == y[1] && x[2] == y[2] && x[3] == y[3], "block Read delivers the next source bytes in order");
    } else {
      if (HAS_SKIP) {
        auto a = skip_of(k.reader(), m);
        auto b = ref.Skip(m);
        ok_r = static_cast<bool>(a); ok_ref = static_cast<bool>(b); err_r = static_cast<int>(a.error());
      } else {
        ok_r = true; ok_ref = true;
      }
    }
    vt_check(ok_r == ok_ref, "the reader fails exactly at the call where the data is exhausted");
    if (!ok_r) {
      vt_check(err_r == static_cast<int>(nop::ErrorStatus::ReadLimitReached) || err_r == static_cast<int>(nop::ErrorStatus::StreamError) || err_r == static_cast<int>(nop::ErrorStatus::IOError), "exhaustion is reported as ReadLimitReached / StreamError / IOError");
      stopped = true;
    } else if (ok_ref) {
      vt_check(k.consumed() == ref.pos, "after a successful call exactly as many bytes are consumed as by the reference source");
    }
  }
  vt_cover(stopped, "a run that exhausts the data reached");
  vt_cover(!stopped && ref.pos == n && n == 6, "a run that consumes all six bytes reached");
}

// ------------------------------------------------------------- C17: writer conformance
template <typename W, bool HAS_SKIP>
void lemma_writer_conforms() {
  std::uint8_t out[8], ref_out[8];
  for (int i = 0; i < 8; i++) { out[i] = 0; ref_out[i] = 0; }
  WriterKit<W> k;
  k.init(out, 8);
  SpecWriter ref;
  ref.Init(ref_out, 8);
  bool stopped = false;
  for (int step = 0; step < 3; step++) {
    if (stopped) continue;
    const std::uint8_t op = nondet<std::uint8_t>() % 3;
    const std::size_t m = nondet<std::uint8_t>() % 4;
    const std::uint8_t v = nondet<std::uint8_t>();
    bool ok_w, ok_ref;
    if (op == 0) {
      auto a = k.writer()->Write(v);
      auto b = ref.Write(v);
      ok_w = static_cast<bool>(a); ok_ref = static_cast<bool>(b);
    } else if (op == 1) {
      std::uint8_t x[4] = {v, static_cast<std::uint8_t>(v + 1), static_cast<std::uint8_t>(v + 2), static_cast<std::uint8_t>(v + 3)};
      auto a = k.writer()->Write(&x[0], &x[0] + m);
      auto b = ref.Write(&x[0], &x[0] + m);
      ok_w = static_cast<bool>(a); ok_ref = static_cast<bool>(b);
    } else {
      if (HAS_SKIP) {
        auto a = wskip_of(k.writer(), m, v);
        auto b = ref.Skip(m, v);
        ok_w = static_cast<bool>(a); ok_ref = static_cast<bool>(b);
      } else {
        ok_w = true; ok_ref = true;
      }
    }
    if (!ok_ref) { stopped = true; continue; }  // beyond the sink's capacity the stream/fd models may differ (device full)
    vt_check(ok_w, "a write that fits succeeds");
    vt_check(k.size() == ref.pos, "exactly as many bytes are produced as by the reference sink");
  }
  const std::size_t i = nondet<std::uint8_t>() % 8;
  if (i < ref.pos) vt_check(out[i] == ref_out[i], "the byte stream produced equals the reference byte stream");
  vt_cover(ref.pos >= 6, "a run producing six or more bytes reached");
}

// FdReader / FdWriter own their descriptor: closed exactly once on destruction, not after Release
inline void lemma_fd_ownership() {
  vt_fd_reset_closed();
  const bool release = nondet<bool>();
  {
    nop::FdReader r(VT_FD_SRC);
    nop::FdWriter w(VT_FD_DST);
    if (release) {
      vt_check(r.Release() == VT_FD_SRC, "Release hands the descriptor out");
    }
    nop::FdReader moved(std::move(r));
  }
  vt_check(vt_fd_closed(VT_FD_SRC) == (release ? 0u : 1u), "the source descriptor is closed exactly once unless released");
  vt_check(vt_fd_closed(VT_FD_DST) == 1, "the sink descriptor is closed exactly once");
  vt_cover(release, "release path reached");
}

// one block read of 4 bytes through FdReader from a source of 0..6 bytes that the kernel may deliver in short pieces
// (chunk 1..4) with one EINTR: the block is complete exactly when the source has 4 bytes, and then it is those bytes
inline void lemma_fd_block_read() {
  std::uint8_t src[6];
  for (int i = 0; i < 6; i++) src[i] = nondet<std::uint8_t>();
  const std::size_t n = nondet<std::uint8_t>() % 7;
  const std::size_t chunk = nondet<std::uint8_t>() % 5;     // 0: no artificial limit
  const std::size_t intr_at = nondet<std::uint8_t>();        // the read(2) call with this index is interrupted once
  vt_fd_source(src, n, intr_at, ~0UL, chunk);
  vt_fd_reset_closed();
  std::uint8_t got[4] = {0, 0, 0, 0};
  {
    nop::FdReader r(VT_FD_SRC);
    auto st = r.Read(got, got + 4);
    if (n >= 4) {
      vt_check(static_cast<bool>(st), "a block that is fully present is read completely, however the kernel splits it");
      vt_check(got[0] == src[0] && got[1] == src[1] && got[2] == src[2] && got[3] == src[3], "the block delivered is the next 4 source bytes");
      vt_check(vt_fd_consumed() == 4, "exactly the block is consumed");
    } else {
      vt_check(!static_cast<bool>(st), "a block that the source cannot fill is an error, never a short success");
    }
    (void)r.Release();
  }
  vt_cover(n >= 4 && chunk == 1, "byte-at-a-time delivery reached");
  vt_cover(n == 3, "short source reached");
}

// UniqueFileHandle (Handle<FileHandlePolicy>) closes the descriptor it owns exactly once — for EVERY valid descriptor
// number, 0 included — and never one that was released
inline void lemma_file_handle() {
  vt_fd_reset_closed();
  const int fd = nondet<int>();
  // valid descriptors only: the policy passes an empty handle's -1 to ::close() as well, which closes nothing
  vt_assume(fd >= 0 && fd != VT_FD_SRC && fd != VT_FD_DST);
  vt_fd_watch(fd);
  const std::uint8_t op = nondet<std::uint8_t>();
  {
    nop::UniqueFileHandle h(fd);
    vt_check(static_cast<bool>(h), "a handle holding a non-negative descriptor is valid");
    if (op == 0) {
      // destruction only
    } else if (op == 1) {
      h.close();
      vt_check(vt_fd_closed_watch() == 1u && !h, "close() closes the descriptor once and empties the handle");
    } else if (op == 2) {
      const int got = h.release();
      vt_check(got == fd && !h, "release() hands the descriptor out and empties the handle");
    } else if (op == 3) {
      nop::UniqueFileHandle other(std::move(h));
      vt_check(!h, "a moved-from handle is empty");
    } else if (op == 4) {
      h = nop::UniqueFileHandle();  // move-assignment of an empty handle over an owning one closes it
      vt_check(vt_fd_closed_watch() == 1u && !h, "assigning an empty handle over an owning one closes the descriptor");
    }
  }
  vt_check(vt_fd_closed_watch() == (op != 2 ? 1u : 0u), "the descriptor is closed exactly once unless it was released");
  vt_cover(fd == 0 && op == 0, "descriptor 0 reached");
  vt_cover(op == 2, "release reached");
}

}  // namespace vt

VT_HARNESS(h_fd_block_read) { vt::lemma_fd_block_read(); }
VT_HARNESS(h_file_handle) { vt::lemma_file_handle(); }
VT_HARNESS(h_conf_stream_reader) { vt::lemma_reader_conforms<vt::StreamR, true>(); }
VT_HARNESS(h_conf_fd_reader) { vt::lemma_reader_conforms<nop::FdReader, false>(); }
VT_HARNESS(h_conf_stream_writer) { vt::lemma_writer_conforms<vt::StreamW, true>(); }
VT_HARNESS(h_conf_fd_writer) { vt::lemma_writer_conforms<nop::FdWriter, false>(); }
VT_HARNESS(h_fd_ownership) { vt::lemma_fd_ownership(); }

VT_HARNESS(h_rt_u32_stream) { vt::lemma_roundtrip<std::uint32_t, vt::StreamW, vt::StreamR>(); }
VT_HARNESS(h_rt_f64_stream) { vt::lemma_roundtrip<double, vt::StreamW, vt::StreamR>(); }
VT_HARNESS(h_rt_s1_stream) { vt::lemma_roundtrip<vt::S1, vt::StreamW, vt::StreamR>(); }
VT_HARNESS(h_rt_tr_stream) { vt::lemma_roundtrip<vt::TR, vt::StreamW, vt::StreamR>(); }
VT_HARNESS(h_rt_u32_fd) { vt::lemma_roundtrip<std::uint32_t, nop::FdWriter, nop::FdReader>(); }
VT_HARNESS(h_rt_f64_fd) { vt::lemma_roundtrip<double, nop::FdWriter, nop::FdReader>(); }
VT_HARNESS(h_rt_s1_fd) { vt::lemma_roundtrip<vt::S1, nop::FdWriter, nop::FdReader>(); }
VT_HARNESS(h_rt_s1_ped_stream) { vt::lemma_roundtrip<vt::S1, nop::PedanticBufferWriter, vt::StreamR>(); }
VT_HARNESS(h_rt_s1_stream_fd) { vt::lemma_roundtrip<vt::S1, vt::StreamW, nop::FdReader>(); }

VT_HARNESS(h_trunc_u32_stream) { vt::lemma_truncate<std::uint32_t, vt::StreamR, 7, false>(); }
VT_HARNESS(h_trunc_f64_stream) { vt::lemma_truncate<double, vt::StreamR, 11, false>(); }
VT_HARNESS(h_trunc_s1_stream) { vt::lemma_truncate<vt::S1, vt::StreamR, 18, false>(); }
VT_HARNESS(h_trunc_tr_stream) { vt::lemma_truncate<vt::TR, vt::StreamR, 10, false>(); }
VT_HARNESS(h_trunc_u32_fd) { vt::lemma_truncate<std::uint32_t, nop::FdReader, 7, false>(); }
VT_HARNESS(h_trunc_f64_fd) { vt::lemma_truncate<double, nop::FdReader, 11, false>(); }
VT_HARNESS(h_trunc_s1_fd) { vt::lemma_truncate<vt::S1, nop::FdReader, 18, false>(); }
