// C16 — BoundedReader / BoundedWriter over an arbitrary wrapped reader / writer.
// The wrappers exist only so that the real member functions are instantiated and
// lowered; the contracts (bounded.spec) are on the nop:: functions themselves.
#include <array>
#include <nop/utility/bounded_reader.h>
#include <nop/utility/bounded_writer.h>

#include "spec_io.h"
#include "vt.h"

namespace vt {
using BR = nop::BoundedReader<SpecReader>;
using BW = nop::BoundedWriter<SpecWriter>;

nop::Status<void> x_br_ensure(BR* r, std::size_t n) { return r->Ensure(n); }
nop::Status<void> x_br_read1(BR* r, std::uint8_t* b) { return r->Read(b); }
nop::Status<void> x_br_read_u32(BR* r, std::uint32_t* b, std::uint32_t* e) { return r->Read(b, e); }
nop::Status<void> x_br_read_u8(BR* r, std::uint8_t* b, std::uint8_t* e) { return r->Read(b, e); }
nop::Status<void> x_br_skip(BR* r, std::size_t n) { return r->Skip(n); }
nop::Status<void> x_br_pad(BR* r) { return r->ReadPadding(); }

nop::Status<void> x_bw_prepare(BW* w, std::size_t n) { return w->Prepare(n); }
nop::Status<void> x_bw_write1(BW* w, std::uint8_t b) { return w->Write(b); }
nop::Status<void> x_bw_write_u32(BW* w, const std::uint32_t* b, const std::uint32_t* e) { return w->Write(b, e); }
nop::Status<void> x_bw_write_u8(BW* w, const std::uint8_t* b, const std::uint8_t* e) { return w->Write(b, e); }
nop::Status<void> x_bw_skip(BW* w, std::size_t n, std::uint8_t v) { return w->Skip(n, v); }
nop::Status<void> x_bw_pad(BW* w, std::uint8_t v) { return w->WritePadding(v); }
}  // namespace vt
