#!/usr/bin/env python3
# jobs for units/codec_scalar.cpp: every lemma x every scalar type x every reader / writer kit.
# All harnesses are loop-free apart from byte loops of constant trip count MAXN <= 11 (complete unwinding).
ints = [("bool", 3), ("char", 4), ("u8", 4), ("i8", 4), ("u16", 5), ("i16", 5), ("u32", 7), ("i32", 7), ("u64", 11), ("i64", 11), ("e8", 4), ("e32", 7)]
flts = [("f32", 7), ("f64", 11)]
out = []
def job(name, props, unwind, tier="quick"):
    out.append("job %s\n  props %s\n  harness h_%s\n  unwind %d complete constant trip count <= MAXN\n  tier %s\n" % ("cs_" + name, props, name, unwind, tier))
for t, n in ints + flts:
    u = n + 2
    job("enc_%s" % t, "C03 C06", u)
    job("dec_%s_spec" % t, "C04 C11", u)
    for r in ("buf", "ped", "bnd"):
        job("dec_%s_%s" % (t, r), "C04 C02 C11", u)
    job("rt_%s_spec_spec" % t, "C01", u)
    job("rt_%s_buf_buf" % t, "C01", u)
    job("rt_%s_ped_ped" % t, "C01", u)
    job("rt_%s_bnd_bnd" % t, "C01", u)
    job("rt_%s_buf_ped" % t, "C01", u, "thorough")
    for r in ("spec", "buf", "ped", "bnd"):
        job("trunc_%s_%s" % (t, r), "C05", u)
    for w in ("bw", "pw", "bdw", "bdbw"):
        job("cap_%s_%s" % (t, w), "C06", u)
    job("faultw_%s" % t, "C10", u)
    job("faultr_%s" % t, "C10", u)
    if (t, n) in ints:
        job("rt_%s_cx_ped" % t, "C01 C17", u)
        job("cap_%s_cw" % t, "C06", u)
print("\n".join(out))
