#!/usr/bin/env python3
# jobs for units/codec_scalar.cpp: every lemma x every scalar type x every reader / writer kit.
# All harnesses are loop-free apart from byte loops of constant trip count MAXN <= 11 (complete unwinding).
ints = [("bool", 3), ("char", 4), ("u8", 4), ("i8", 4), ("u16", 5), ("i16", 5), ("u32", 7), ("i32", 7), ("u64", 11), ("i64", 11), ("e8", 4), ("e32", 7)]
flts = [("f32", 7), ("f64", 11)]
out = []
def job(name, props, unwind, tier="quick"):
    out.append("job %s\n  props %s\n  harness h_%s\n  unwind %d complete constant trip count <= MAXN\n  tier %s\n" % ("cs_" + name, props, name, unwind, tier))
for t, n in ints + flts:
    u = n + 2
    job("enc_%s" % t, "C03 C06", u)
    job("dec_%s_spec" % t, "C04 C11", u)
    for r in ("buf", "ped", "bnd"):
        job("dec_%s_%s" % (t, r), "C04 C02 C11", u)
    job("rt_%s_spec_spec" % t, "C01", u)
    job("rt_%s_buf_buf" % t, "C01", u)
    job("rt_%s_ped_ped" % t, "C01", u)
    job("rt_%s_bnd_bnd" % t, "C01", u)
    job("rt_%s_buf_ped" % t, "C01", u, "thorough")
    for r in ("spec", "buf", "ped", "bnd"):
        job("trunc_%s_%s" % (t, r), "C05", u)
    for w in ("bw", "pw", "bdw", "bdbw"):
        job("cap_%s_%s" % (t, w), "C06", u)
    job("faultw_%s" % t, "C10", u)
    job("faultr_%s" % t, "C10", u)
    if (t, n) in ints:
        job("rt_%s_cx_ped" % t, "C01 C17", u)
        job("cap_%s_cw" % t, "C06", u)
# --- per-function contracts on the real scalar codec functions (full domain, loop-free): Prefix / Size / Match
# against the integer-class rules of docs/format.md (constants parsed from the document each run).
uints = [("unsigned char", "u8", 1, "unsigned char"), ("unsigned short", "u16", 2, "unsigned short"), ("unsigned int", "u32", 4, "unsigned int"), ("unsigned long", "u64", 8, "unsigned long")]
sints = [("signed char", "i8", 1, "signed char"), ("short", "i16", 2, "short"), ("int", "i32", 4, "int"), ("long", "i64", 8, "long")]
def contract(key, clauses, name, props):
    out.append("contract %s\n%s" % (key, "".join("  %s\n" % c for c in clauses)))
    out.append("job cs_fn_%s\n  props %s\n  enforce %s\n" % (name, props, key))
for ct, t, b, p in uints:
    contract("nop::Encoding<%s>::Prefix(%s)" % (ct, p), ["assigns", "ensures RET == VT_PREFIX_UINT((unsigned long)value)"], "prefix_" + t, "C03")
    contract("nop::Encoding<%s>::Size(%s)" % (ct, p), ["assigns", "ensures RET == VT_LEN_UINT((unsigned long)value)"], "size_" + t, "C03 C06")
    contract("nop::Encoding<%s>::Match(nop::EncodingByte)" % ct, ["assigns", "ensures RET == (VT_MATCH_UINT(prefix, %d) ? 1 : 0)" % b], "match_" + t, "C04")
for ct, t, b, p in sints:
    contract("nop::Encoding<%s>::Prefix(%s)" % (ct, p), ["assigns", "ensures RET == VT_PREFIX_INT((long)value)"], "prefix_" + t, "C03")
    contract("nop::Encoding<%s>::Size(%s)" % (ct, p), ["assigns", "ensures RET == VT_LEN_INT((long)value)"], "size_" + t, "C03 C06")
    contract("nop::Encoding<%s>::Match(nop::EncodingByte)" % ct, ["assigns", "ensures RET == (VT_MATCH_INT(prefix, %d) ? 1 : 0)" % b], "match_" + t, "C04")
contract("nop::Encoding<char>::Prefix(char)", ["assigns", "ensures RET == VT_PREFIX_UINT((unsigned long)(unsigned char)value)"], "prefix_char", "C03")
contract("nop::Encoding<char>::Match(nop::EncodingByte)", ["assigns", "ensures RET == (VT_MATCH_UINT(prefix, 1) ? 1 : 0)"], "match_char", "C04")
contract("nop::Encoding<bool>::Prefix(bool)", ["assigns", "ensures RET == (value ? FMT_TRUE : FMT_FALSE)"], "prefix_bool", "C03")
contract("nop::Encoding<bool>::Match(nop::EncodingByte)", ["assigns", "ensures RET == ((prefix == FMT_TRUE || prefix == FMT_FALSE) ? 1 : 0)"], "match_bool", "C04")
contract("nop::Encoding<float>::Match(nop::EncodingByte)", ["assigns", "ensures RET == (prefix == FMT_F32 ? 1 : 0)"], "match_f32", "C04")
contract("nop::Encoding<double>::Match(nop::EncodingByte)", ["assigns", "ensures RET == (prefix == FMT_F64 ? 1 : 0)"], "match_f64", "C04")
contract("nop::BaseEncodingSize(nop::EncodingByte)", ["assigns",
  "ensures (prefix <= FMT_POS_MAX || prefix >= FMT_NEG_MIN) ==> RET == 1",
  "ensures (prefix == FMT_U8 || prefix == FMT_I8) ==> RET == 2",
  "ensures (prefix == FMT_U16 || prefix == FMT_I16) ==> RET == 3",
  "ensures (prefix == FMT_U32 || prefix == FMT_I32 || prefix == FMT_F32) ==> RET == 5",
  "ensures (prefix == FMT_U64 || prefix == FMT_I64 || prefix == FMT_F64) ==> RET == 9",
  "ensures (prefix >= FMT_RESERVED_MIN && prefix <= FMT_RESERVED_MAX) ==> RET == 0",
  "ensures (prefix >= FMT_TAB && prefix <= FMT_EXT) ==> RET == 1"], "base_encoding_size", "C03 C06")
# --- EncodingIO<Int>::Write over the reference sink: the bytes appended are the documented encoding (prefix, then the
# little-endian payload of the class the value falls in), position advances by its length, any sink error is returned verbatim.
out.append("c #define VT_MAXLEN (1UL << 40)")
out.append("c #define SW_PRE(w) (FRESH(w) && (w)->failed == 0 && (w)->fail_code >= 1 && (w)->fail_code <= 18 && (w)->cap <= VT_MAXLEN && (w)->pos <= (w)->cap && FRESHN((w)->dst, (w)->cap))")
def write_contract(ct, t, signed):
    key = "nop::EncodingIO<%s>::Write<vt::SpecWriter>" % ct
    cast = "(long)(*value)" if signed else "(unsigned long)(*value)"
    ln = "VT_LEN_INT(%s)" % cast if signed else "VT_LEN_UINT(%s)" % cast
    pf = "VT_PREFIX_INT(%s)" % cast if signed else "VT_PREFIX_UINT(%s)" % cast
    cl = ["requires SW_PRE(writer) && FRESH(value)",
          "assigns __CPROVER_object_whole(writer->dst), writer->pos, writer->failed, writer->calls, writer->writes, writer->after_fail",
          "ensures ERR(RET) == 0 ==> (writer->failed == 0 && writer->pos == OLD(writer->pos) + %s)" % ln,
          "ensures ERR(RET) == 0 ==> writer->dst[OLD(writer->pos)] == %s" % pf,
          "ensures (ERR(RET) == 0 && vt_k < %s - 1) ==> writer->dst[OLD(writer->pos) + 1 + vt_k] == (unsigned char)(((unsigned long)%s) >> (8 * (vt_k & 7)))" % (ln, cast),
          "ensures ERR(RET) != 0 ==> (writer->failed == ERR(RET) && writer->after_fail == OLD(writer->after_fail))",
          "ensures (OLD(writer->cap) - OLD(writer->pos) >= %s && OLD(writer->fail_at) - OLD(writer->calls) >= 2) ==> ERR(RET) == 0" % ln]
    out.append("contract %s\n%s" % (key, "".join("  %s\n" % c for c in cl)))
    out.append("job cs_fn_write_%s\n  props C03 C10\n  pre vt_k = nondet_ulong();\n  enforce %s\n" % (t, key))
for ct, t, b, p in uints:
    write_contract(ct, t, False)
for ct, t, b, p in sints:
    write_contract(ct, t, True)
# --- EncodingIO<Int>::Read over the reference source: accepts exactly the classes of the right signedness no wider
# than the destination, consumes prefix + payload, the value is the little-endian payload zero- / sign-extended
# (bit k of the result against the source bytes through the ghost index), errors: UnexpectedEncodingType for a class
# that is not allowed, ReadLimitReached when the data ends, any injected fault verbatim.
out.append("c #define SR_PRE(r) (FRESH(r) && (r)->failed == 0 && (r)->fail_code >= 1 && (r)->fail_code <= 18 && (r)->len <= VT_MAXLEN && (r)->pos <= (r)->len && FRESHN((r)->src, (r)->len))")
def read_contract(ct, t, b, signed):
    key = "nop::EncodingIO<%s>::Read<vt::SpecReader>" % ct
    DL = ("VT_DECLEN_INT" if signed else "VT_DECLEN_UINT")
    dl = "vt_dl"   # ghost: payload length selected by the prefix byte at the reader's position (0 = class not allowed)
    nofault = "(OLD(reader->fail_at) - OLD(reader->calls) >= 2)"
    avail = "(reader->len - OLD(reader->pos))"
    cl = ["requires SR_PRE(reader) && FRESH(value)",
          "requires reader->pos < reader->len ==> (vt_p == reader->src[reader->pos] && vt_dl == %s(vt_p, %d))" % (DL, b),
          "assigns *value, reader->pos, reader->failed, reader->calls, reader->after_fail",
          "ensures ERR(RET) == 0 ==> (reader->failed == 0 && %s >= 1 && %s != 0 && reader->pos == OLD(reader->pos) + %s)" % (avail, dl, dl),
          "ensures (ERR(RET) == 0 && %s == 1) ==> *value == (%s)(%s)vt_p" % (dl, ct, "signed char" if signed else "unsigned char"),
          "ensures (ERR(RET) == 0 && %s > 1 && vt_k < %s - 1) ==> (unsigned char)(((unsigned long)*value) >> (8 * (vt_k & 7))) == reader->src[OLD(reader->pos) + 1 + vt_k]" % (dl, dl),
          ("ensures (ERR(RET) == 0 && %s > 1 && vt_k >= %s - 1 && vt_k < %d) ==> (unsigned char)(((unsigned long)(long)*value) >> (8 * (vt_k & 7))) == ((reader->src[OLD(reader->pos) + %s - 1] & 0x80) ? 0xff : 0x00)" % (dl, dl, b, dl)) if signed else
          ("ensures (ERR(RET) == 0 && %s > 1 && vt_k >= %s - 1 && vt_k < %d) ==> (unsigned char)(((unsigned long)*value) >> (8 * (vt_k & 7))) == 0" % (dl, dl, b)),
          "ensures (%s && %s >= 1 && %s == 0) ==> ERR(RET) == E_UnexpectedEncodingType" % (nofault, avail, dl),
          "ensures (%s && (%s == 0 || (%s != 0 && %s < %s))) ==> ERR(RET) == E_ReadLimitReached" % (nofault, avail, dl, avail, dl),
          "ensures (%s && %s >= 1 && %s != 0 && %s >= %s) ==> ERR(RET) == 0" % (nofault, avail, dl, avail, dl),
          "ensures (ERR(RET) != 0 && ERR(RET) != E_UnexpectedEncodingType) ==> (reader->failed == ERR(RET) && reader->after_fail == OLD(reader->after_fail))"]
    out.append("contract %s\n%s" % (key, "".join("  %s\n" % c for c in cl)))
    out.append("job cs_fn_read_%s\n  props C04 C10\n  pre vt_k = nondet_ulong(); vt_p = nondet_uchar(); vt_dl = nondet_ulong();\n  enforce %s\n  timeout 900\n" % (t, key))
out.append("c unsigned char vt_p; unsigned long vt_dl;")
for ct, t, b, p in uints:
    read_contract(ct, t, b, False)
for ct, t, b, p in sints:
    read_contract(ct, t, b, True)
print("\n".join(out))
