#!/usr/bin/env python3
# jobs for units/codec_std.cpp (growable containers over the std models).  BOUNDED: element counts <= 3
# (strings <= 6 characters) — the capacity of the verification models; labelled bounded, not counted as proof.
types = [("vecu8", 7), ("vecu32", 16), ("vecpair", 12), ("str", 10), ("wstr", 14), ("map", 12), ("umap", 12)]
out = ["cxxflags -Ispec/stdmodel"]
HEAVY = ("map", "umap", "vecpair")
# jobs that did not finish within 900 s / 14 GB on this image (measured in the thorough tier); they decided nothing,
# so they are not registered.
DROPPED = {
    "cap_map_bw": "solver out of memory (14 GB): exactly-sized heap buffer x tree model", "cap_umap_bw": "solver out of memory (14 GB)",
    "cap_vecpair_bw": "solver out of memory (14 GB)", "trunc_vecpair_buf": "timeout", "trunc_vecpair_ped": "timeout",
}
QUICK_ANYWAY = ("faultw_map", "faultw_umap", "faultw_vecpair", "faultr_map", "faultr_umap", "faultr_vecpair", "enc_vecpair", "enc_map", "enc_umap")
def job(name, props, unwind, tier="quick"):
    if name in DROPPED:
        return
    if name in QUICK_ANYWAY or "8_" in name:
        pass
    elif any(name.endswith("_" + h) or ("_" + h + "_") in name for h in HEAVY):
        tier = "thorough"   # minutes per job; the byte-counted containers stay in the quick tier
    out.append("job sd_%s\n  props %s\n  harness h_%s\n  unwind %d bounded containers hold <= 3 elements (strings <= 6 characters): capacity of the std models\n  unwindset ReadPayload 10\n  tier %s\n  timeout 900\n" % (name, props, name, unwind, tier))
for t, n in types:
    u = n + 2
    job("enc_%s" % t, "C03 C06", u)
    job("dec_%s_spec" % t, "C04 C02 C11", u)
    job("dec_%s_ped" % t, "C04 C02 C11", u)
    job("dec_%s_buf" % t, "C04 C02", u, "thorough")
    job("rt_%s_ped_ped" % t, "C01", u)
    job("rt_%s_spec_spec" % t, "C01", u, "thorough")
    job("trunc_%s_ped" % t, "C05", u)
    job("trunc_%s_buf" % t, "C05", u, "thorough")
    job("cap_%s_bw" % t, "C06", u)
    job("faultw_%s" % t, "C10", u)
    job("faultr_%s" % t, "C10", u)
for t in ("map8", "umap8", "vecpair8"):
    job("dec_%s_ped" % t, "C04 C02 C11", 10)
    job("trunc_%s_ped" % t, "C05", 10)
    job("cap_%s_bw" % t, "C06", 10)
# --- unbounded: Size() of the byte-counted containers is loop-free; a contract on the real function over a
# container of ANY size (the model's size_ field is symbolic up to 2^60) pins GetSize for every length.
def size_contract(cxxtype, name, elem):
    key = "nop::Encoding<%s>::Size" % cxxtype
    out.append("contract %s\n  requires FRESH(value) && value->size_ <= (1UL << 60)\n  assigns\n  ensures RET == 1 + VT_LEN_UINT(value->size_ * %d) + value->size_ * %d\n" % (key, elem, elem))
    out.append("job sd_size_%s\n  props C06 C03 C01\n  enforce %s\n  note unbounded: every container length up to 2^60 elements\n" % (name, key))
size_contract("std::vector<unsigned char>", "vecu8", 1)
size_contract("std::vector<unsigned int>", "vecu32", 4)
size_contract("std::basic_string<char>", "str", 1)
size_contract("std::basic_string<wchar_t>", "wstr", 4)
print("\n".join(out))
