// C14 — RPC dispatch calls exactly the selected handler with the sent arguments.
#include <array>
#include <limits>
#include <new>
#include <tuple>
#include <nop/base/encoding.h>
#include <nop/base/enum.h>
#include <nop/base/serializer.h>
#include <nop/base/tuple.h>
#include <nop/rpc/interface.h>
#include <nop/rpc/simple_method_receiver.h>
#include <nop/rpc/simple_method_sender.h>

#include "lemmas.h"

namespace vt {

struct Calc : nop::Interface<Calc> {
  NOP_INTERFACE("io.github.eieio.vt.Calc");
  NOP_METHOD(Add, std::int32_t(std::int32_t a, std::uint8_t b));
  NOP_METHOD(Neg, std::int16_t(std::int16_t v));
  NOP_METHOD(Unbound, std::uint8_t(std::uint8_t v));
  NOP_METHOD(Next, std::int32_t());
  NOP_INTERFACE_API(Add, Neg, Unbound, Next);
};

// handler invocation log (ghost)
static int g_add_calls = 0, g_neg_calls = 0;
static std::int32_t g_add_a = 0;
static std::uint8_t g_add_b = 0;
static std::int16_t g_neg_v = 0;
static int g_passthrough = 0;
static int g_next_calls = 0;
inline std::int32_t on_next() {
  g_next_calls += 1;
  return 77;
}

inline std::int32_t on_add(std::int32_t a, std::uint8_t b) {
  g_add_calls += 1;
  g_add_a = a;
  g_add_b = b;
  return static_cast<std::int32_t>(static_cast<std::uint32_t>(a) + b);
}
struct Service {
  int tag;
  std::int16_t OnNeg(std::int16_t v) {  // member-function binding: the instance is the passthrough argument
    g_neg_calls += 1;
    g_neg_v = v;
    g_passthrough = 35 + tag;
    return static_cast<std::int16_t>(-static_cast<int>(v));
  }
};

using Ser = nop::Serializer<SpecWriter*>;
using Des = nop::Deserializer<SpecReader*>;
using Receiver = nop::SimpleMethodReceiver<Ser, Des>;
using Sender = nop::SimpleMethodSender<Ser, Des>;

inline void reset_log() {
  g_next_calls = 0;
  g_add_calls = 0;
  g_neg_calls = 0;
  g_passthrough = 0;
}

// request = selector (UINT64 class) followed by the argument tuple (ARY n, arguments in order)
inline void enc_add_request(fmt::Out& o, std::uint64_t selector, std::int32_t a, std::uint8_t b) {
  fmt::enc_uint(o, selector);
  fmt::enc_header(o, FMT_ARY, 2);
  fmt::enc_int(o, a);
  fmt::enc_uint(o, b);
}

// -------------------------------------------------------------------------- dispatcher
inline void lemma_dispatch() {
  reset_log();
  const std::uint64_t selector = nondet<std::uint64_t>();
  const std::int32_t a = nondet<std::int32_t>();
  const std::uint8_t b = nondet<std::uint8_t>();
  const std::int16_t v = nondet<std::int16_t>();
  fmt::Out req;
  fmt::init(req);
  if (selector == Calc::Neg::Selector) {
    fmt::enc_uint(req, selector);
    fmt::enc_header(req, FMT_ARY, 1);
    fmt::enc_int(req, v);
  } else {
    enc_add_request(req, selector, a, b);
  }
  const std::size_t cut = nondet<std::uint8_t>();  // requests may arrive truncated
  const std::size_t req_len = cut < req.n ? cut : req.n;
  std::uint8_t reply[fmt::kCap];
  SpecReader r;
  r.Init(req.b, req_len);
  SpecWriter w;
  w.Init(reply, sizeof reply);
  Ser ser{&w};
  Des des{&r};
  Receiver receiver{&ser, &des};
  Service service = {7};
  const bool member_set = nondet<bool>();  // which set of bindings serves the connection
  // set 1: a free function and a lambda, no passthrough; set 2: a member function with an instance and a passthrough argument
  auto bindings1 = nop::BindInterface(Calc::Add::Bind(on_add), Calc::Neg::Bind([](std::int16_t x) {
    g_neg_calls += 1;
    g_neg_v = x;
    g_passthrough = 42;
    return static_cast<std::int16_t>(-static_cast<int>(x));
  }));
  auto bindings2 = nop::BindInterface<Service*>(Calc::Neg::Bind(&Service::OnNeg));
  nop::Status<void> st;
  if (member_set) st = bindings2(&receiver, &service);
  else st = bindings1(&receiver);
  const bool whole = req_len == req.n;
  if (whole && selector == Calc::Add::Selector && !member_set) {
    vt_check(static_cast<bool>(st), "bound selector with a well-formed request dispatches successfully");
    vt_check(g_add_calls == 1 && g_neg_calls == 0, "exactly the handler bound to the selector ran, exactly once");
    vt_check(g_add_a == a && g_add_b == b, "the handler received the argument values that were sent");
    fmt::Out rep;
    fmt::init(rep);
    fmt::enc_int(rep, static_cast<std::int32_t>(static_cast<std::uint32_t>(a) + b));
    vt_check(w.pos == rep.n, "exactly one reply: the handler's return value");
    const std::size_t i = nondet<std::uint8_t>();
    vt_assume(i < rep.n);
    vt_check(reply[i] == rep.b[i], "the reply is the documented encoding of the handler's return value");
    vt_check(r.pos == req.n, "the call consumed exactly its own request");
  } else if (whole && selector == Calc::Neg::Selector) {
    vt_check(static_cast<bool>(st) && g_neg_calls == 1 && g_add_calls == 0 && g_neg_v == v, "member-function binding: right handler, once, with the sent argument");
    vt_check(g_passthrough == (member_set ? 35 + 7 : 42), "the bound member function runs on the instance that was passed through (or the lambda ran)");
    fmt::Out rep;
    fmt::init(rep);
    fmt::enc_int(rep, static_cast<std::int16_t>(-static_cast<int>(v)));
    const std::size_t i = nondet<std::uint8_t>();
    vt_assume(i < rep.n);
    vt_check(w.pos == rep.n && reply[i] == rep.b[i] && r.pos == req.n, "reply and frame of the member-function call");
  } else {
    vt_check(!static_cast<bool>(st), "an unbound selector or a malformed request is an error");
    vt_check(g_add_calls == 0 && g_neg_calls == 0, "no handler runs for an unbound selector or a request that fails to decode");
    vt_check(w.pos == 0, "nothing is sent back");
    if (whole) vt_check(st.error() == nop::ErrorStatus::InvalidInterfaceMethod, "a selector with no bound handler yields InvalidInterfaceMethod");
    // a request that carries a bound selector (9 bytes: U64 class) but whose argument tuple is cut short fails to
    // decode with the reader's error, which is what the dispatcher returns — not "no such method"
    const bool bound = (selector == Calc::Neg::Selector) || (selector == Calc::Add::Selector && !member_set);
    if (!whole && bound && req_len >= 9)
      vt_check(st.error() == nop::ErrorStatus::ReadLimitReached, "a request whose arguments fail to decode yields that decode error");
  }
  vt_cover(whole && selector == Calc::Add::Selector && !member_set, "Add dispatched");
  vt_cover(whole && selector == Calc::Neg::Selector && member_set, "Neg dispatched to the member function");
  vt_cover(whole && selector == Calc::Neg::Selector && !member_set, "Neg dispatched to the lambda");
  vt_cover(whole && selector == Calc::Add::Selector && member_set, "Add not bound in the member set reached");
  vt_cover(whole && selector == Calc::Unbound::Selector, "declared but unbound selector reached");
  vt_cover(!whole && selector == Calc::Add::Selector && req_len > 9, "truncated argument tuple reached");
}

// ------------------------------------------------------------------------------ sender
inline void lemma_invoke() {
  const std::int32_t a = nondet<std::int32_t>();
  const std::uint8_t b = nondet<std::uint8_t>();
  const std::int32_t result = nondet<std::int32_t>();
  fmt::Out rep;
  fmt::init(rep);
  fmt::enc_int(rep, result);
  std::uint8_t out[fmt::kCap];
  SpecReader r;
  const std::size_t rcut = nondet<std::uint8_t>();  // the reply may arrive truncated, or the transport may fail
  r.Init(rep.b, rcut < rep.n ? rcut : rep.n);
  r.fail_at = nondet<std::uint8_t>();
  r.fail_code = nondet<std::uint8_t>();
  vt_assume(r.fail_code >= 1 && r.fail_code <= 18);
  SpecWriter w;
  w.Init(out, sizeof out);
  w.fail_at = nondet<std::uint8_t>();
  w.fail_code = nondet<std::uint8_t>();
  vt_assume(w.fail_code >= 1 && w.fail_code <= 18);
  Ser ser{&w};
  Des des{&r};
  Sender sender{&ser, &des};
  auto st = Calc::Add::Invoke(&sender, a, b);
  if (w.failed != 0) {
    vt_check(static_cast<int>(st.error()) == w.failed, "an I/O error while sending is what Invoke returns");
    vt_check(w.after_fail == 0, "nothing is written after the failed call");
  } else if (r.failed != 0) {
    vt_check(!static_cast<bool>(st) && static_cast<int>(st.error()) == r.failed, "a reply that is cut short or fails to arrive makes Invoke return that error, never a value");
    vt_check(r.after_fail == 0, "nothing is read after the failed call");
  } else {
    fmt::Out req;
    fmt::init(req);
    enc_add_request(req, Calc::Add::Selector, a, b);
    vt_check(w.pos == req.n, "request == selector followed by the argument tuple");
    const std::size_t i = nondet<std::uint8_t>();
    vt_assume(i < req.n);
    vt_check(out[i] == req.b[i], "request bytes are the documented encoding of selector and arguments");
    vt_check(static_cast<bool>(st) && st.get() == result, "Invoke returns the value the peer sent back");
    vt_check(r.pos == rep.n, "exactly one reply is consumed");
  }
  vt_cover(w.failed != 0 && w.calls > 2, "fault after the selector reached");
  vt_cover(w.failed == 0 && r.failed == 0, "successful call reached");
  vt_cover(w.failed == 0 && r.failed == static_cast<int>(nop::ErrorStatus::ReadLimitReached), "truncated reply reached");
}

// ------------------------------------------------------------------ sender -> dispatcher
// two successive calls on one connection stay in frame
inline void lemma_two_calls() {
  reset_log();
  const std::int32_t a1 = nondet<std::int32_t>(), a2 = nondet<std::int32_t>();
  const std::uint8_t b1 = nondet<std::uint8_t>(), b2 = nondet<std::uint8_t>();
  fmt::Out req;
  fmt::init(req);
  enc_add_request(req, Calc::Add::Selector, a1, b1);
  enc_add_request(req, Calc::Add::Selector, a2, b2);
  std::uint8_t reply[fmt::kCap];
  SpecReader r;
  r.Init(req.b, req.n);
  SpecWriter w;
  w.Init(reply, sizeof reply);
  Ser ser{&w};
  Des des{&r};
  Receiver receiver{&ser, &des};
  auto bindings = nop::BindInterface(Calc::Add::Bind(on_add), Calc::Next::Bind(on_next));
  auto s1 = bindings(&receiver);
  vt_check(static_cast<bool>(s1) && g_add_calls == 1 && g_add_a == a1 && g_add_b == b1, "first call dispatched with its own arguments");
  auto s2 = bindings(&receiver);
  vt_check(static_cast<bool>(s2) && g_add_calls == 2 && g_add_a == a2 && g_add_b == b2, "second call on the same connection dispatched with its own arguments");
  vt_check(r.pos == req.n, "both requests consumed exactly");
  fmt::Out rep;
  fmt::init(rep);
  fmt::enc_int(rep, static_cast<std::int32_t>(static_cast<std::uint32_t>(a1) + b1));
  fmt::enc_int(rep, static_cast<std::int32_t>(static_cast<std::uint32_t>(a2) + b2));

  const std::size_t i = nondet<std::uint8_t>();
  vt_assume(i < rep.n);
  vt_check(w.pos == rep.n && reply[i] == rep.b[i], "exactly one reply per call, in order");
  vt_cover(true, "two calls lemma end");
}

// a method without arguments still carries an (empty) argument tuple on the wire; the call after it stays in frame
inline void lemma_zero_arg() {
  reset_log();
  const std::int32_t a = nondet<std::int32_t>();
  const std::uint8_t b = nondet<std::uint8_t>();
  fmt::Out req;
  fmt::init(req);
  fmt::enc_uint(req, Calc::Next::Selector);
  fmt::enc_header(req, FMT_ARY, 0);
  enc_add_request(req, Calc::Add::Selector, a, b);
  const std::size_t cut = nondet<std::uint8_t>();
  const std::size_t n = cut < req.n ? cut : req.n;
  std::uint8_t reply[fmt::kCap];
  SpecReader r;
  r.Init(req.b, n);
  SpecWriter w;
  w.Init(reply, sizeof reply);
  Ser ser{&w};
  Des des{&r};
  Receiver receiver{&ser, &des};
  auto bindings = nop::BindInterface(Calc::Add::Bind(on_add), Calc::Next::Bind(on_next));
  auto s1 = bindings(&receiver);
  if (n >= 11) {  // selector (9 bytes: U64 class) + empty tuple (2 bytes) arrived whole
    vt_check(static_cast<bool>(s1) && g_next_calls == 1 && g_add_calls == 0, "the zero-argument method dispatches to its handler, once");
    vt_check(r.pos == 11, "the zero-argument call consumed exactly its own request, including the empty argument tuple");
    auto s2 = bindings(&receiver);
    if (n == req.n) {
      vt_check(static_cast<bool>(s2) && g_add_calls == 1 && g_add_a == a && g_add_b == b, "the call after a zero-argument call is in frame and gets its own arguments");
      vt_check(r.pos == req.n, "both requests consumed exactly");
    } else {
      vt_check(!static_cast<bool>(s2) && g_add_calls == 0, "a truncated second request is rejected and runs no handler");
    }
  } else {
    vt_check(!static_cast<bool>(s1) && g_next_calls == 0 && w.pos == 0, "a truncated zero-argument request is rejected: no handler, no reply");
  }
  vt_cover(n == req.n, "both calls whole reached");
  vt_cover(n == 10, "cut inside the empty argument tuple reached");
}

}  // namespace vt

VT_HARNESS(h_rpc_zero_arg) { vt::lemma_zero_arg(); }
VT_HARNESS(h_rpc_dispatch) { vt::lemma_dispatch(); }
VT_HARNESS(h_rpc_invoke) { vt::lemma_invoke(); }
VT_HARNESS(h_rpc_two_calls) { vt::lemma_two_calls(); }
