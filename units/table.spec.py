#!/usr/bin/env python3
# jobs for units/table.cpp.  Loops: byte loops of constant trip count (<= kCap = 80), the entry loop of the
# table decoders is bounded by the harness input length (every entry needs >= 2 bytes), the unwinding
# assertions prove the bound is enough.
out = []
def job(name, props, unwind=26, tier="quick", timeout=900, entries=8):
    # entry loops (real ReadEntries and the specification decoders): at most `entries` iterations are possible
    # for the harness's input length (every entry needs >= 2 bytes); the unwinding assertion proves it
    out.append("job tb_%s\n  props %s\n  harness h_%s\n  unwind %d complete constant trip counts; entry loops bounded by the input length\n  unwindset ReadEntries %d\n  unwindset ::dec( %d\n  tier %s\n  timeout %d\n" % (name, props, name, unwind, entries, entries, tier, timeout))
job("enc_tw", "C03 C06")
job("enc_tr1", "C03 C06")
job("enc_tn", "C03 C06", tier="thorough")
job("dec_tw_ped", "C08 C04 C02 C11", entries=5)
job("dec_tw_ped14", "C08 C04 C02 C11", entries=8, tier="thorough", timeout=7200)
job("dec_tw_buf", "C08 C04 C02", tier="thorough")
job("dec_tw_bnd", "C08 C04 C02", tier="thorough")
job("dec_tr1_ped", "C08 C04 C02 C11", entries=5, tier="thorough", timeout=3000)
job("dec_tn_ped", "C08 C04 C02 C11", tier="thorough", timeout=3000)
job("trunc_tw_ped", "C05", entries=5)
job("trunc_tw_buf", "C05", tier="thorough")
job("trunc_tr1_ped", "C05", entries=5)
job("rt_tw_ped_ped", "C01", entries=4, tier="thorough", timeout=3000)
job("rt_tn_ped_ped", "C01", tier="thorough", timeout=3600)
job("cap_tw_bw", "C06")
job("faultw_tw", "C10")
job("faultr_tw", "C10", entries=5)
job("defects_tw", "C08")
for a, b in (("tw", "tr1"), ("tr1", "tw"), ("tw", "tr2"), ("tr2", "tw"), ("tw", "tf"), ("tf", "tw"), ("tn", "tn2"), ("tn2", "tn")):
    job("ver_%s_%s" % (a, b), "C07", entries=4, tier=("thorough" if a.startswith("tn") else "quick"), timeout=(3600 if a.startswith("tn") else 900))
job("ver_tw_tr1_buf", "C07", tier="thorough", entries=4)
job("ver_tw_tr1_bnd", "C07", tier="thorough", entries=4)
print("\n".join(out))
