#!/usr/bin/env python3
# jobs for units/table.cpp.  Loops: byte loops of constant trip count (<= kCap = 80), the entry loop of the
# table decoders is bounded by the harness input length (every entry needs >= 2 bytes), the unwinding
# assertions prove the bound is enough.
out = []
# nested-table jobs that did not finish within 3000-3600 s / 14 GB on this image (measured in the thorough tier): they
# decided nothing and are not registered.  Nested tables stay covered by tb_enc_tn (encode) and, per entry and for every
# size, by the modular tower below (SkipEntry / ReadEntry / WriteEntry contracts do not depend on the payload type).
DROPPED = {"dec_tn_ped": "timeout 3000 s", "rt_tn_ped_ped": "timeout 3600 s", "ver_tn_tn2": "out of memory", "ver_tn2_tn": "out of memory"}
def job(name, props, unwind=26, tier="quick", timeout=900, entries=8):
    if name in DROPPED:
        return
    # entry loops (real ReadEntries and the specification decoders): at most `entries` iterations are possible
    # for the harness's input length (every entry needs >= 2 bytes); the unwinding assertion proves it
    out.append("job tb_%s\n  props %s\n  harness h_%s\n  unwind %d complete constant trip counts; entry loops bounded by the input length\n  unwindset ReadEntries %d\n  unwindset ::dec( %d\n  tier %s\n  timeout %d\n" % (name, props, name, unwind, entries, entries, tier, timeout))
job("enc_tw", "C03 C06")
job("enc_tr1", "C03 C06")
job("enc_tn", "C03 C06", tier="thorough")
job("enc_topt", "C03 C06")   # entry whose value type is an Optional
job("dec_topt_ped", "C08 C04 C11", entries=5)
job("rt_topt_ped_ped", "C01", entries=4, timeout=1800)
job("enc_tbig", "C03 C06 C07")   # entry ids in the U16 and U64 classes
job("cap_tbig_bw", "C06 C07")
job("rt_tbig_ped_ped", "C01 C07", entries=4, tier="thorough", timeout=3000)
job("dec_tw_ped", "C08 C04 C02 C11", entries=5)
job("dec_tw_ped14", "C08 C04 C02 C11", entries=8, tier="thorough", timeout=7200)
job("dec_tw_buf", "C08 C04 C02", entries=5, tier="thorough", timeout=3000)
job("dec_tw_bnd", "C08 C04 C02", entries=5, tier="thorough", timeout=3000)
job("dec_tr1_ped", "C08 C04 C02 C11", entries=5, tier="thorough", timeout=3000)
job("dec_tn_ped", "C08 C04 C02 C11", tier="thorough", timeout=3000)
job("trunc_tw_ped", "C05", entries=5)
job("trunc_tw_buf", "C05", tier="thorough")
job("trunc_tr1_ped", "C05", entries=5)
job("rt_tw_ped_ped", "C01", entries=4, tier="thorough", timeout=3000)
job("rt_tn_ped_ped", "C01", tier="thorough", timeout=3600)
job("cap_tw_bw", "C06")
job("faultw_tw", "C10")
job("faultr_tw", "C10", entries=5)
job("defects_tw", "C08")
for a, b in (("tw", "tr1"), ("tr1", "tw"), ("tw", "tr2"), ("tr2", "tw"), ("tw", "tf"), ("tf", "tw"), ("tn", "tn2"), ("tn2", "tn")):
    job("ver_%s_%s" % (a, b), "C07", entries=4, tier=("thorough" if a.startswith("tn") else "quick"), timeout=(3600 if a.startswith("tn") else 900))
job("ver_tw_tr1_buf", "C07", tier="thorough", entries=4)
job("ver_tw_tr1_bnd", "C07", tier="thorough", entries=4)
# ---------------------------------------------------------------------------------------------------------
# Modular, unbounded: skipping an unknown / deleted entry for EVERY declared size (all integer classes, up to 2^64-1)
# and every buffer length up to 2^40.  Tower: (1) EncodingIO<uint64_t>::Read over PedanticBufferReader proved against
# the little-endian class rules; (2) SkipEntry proved with (1) and PedanticBufferReader::Skip REPLACED by their
# contracts (the latter is proved in unit rw, job c17_pr_skip, with the same text).
out.append("c #define VT_MAXLEN (1UL << 40)")
out.append("c unsigned char vt_p; unsigned long vt_dl; unsigned long vt_val;")
out.append("c #define PB_PRE(r) (FRESH(r) && (r)->size_ <= VT_MAXLEN && (r)->index_ <= (r)->size_ && FRESHN((r)->buffer_, (r)->size_))")
out.append("c #define PB_AVAIL(r) ((r)->size_ - OLD((r)->index_))")
out.append("c #define LE1(r) ((unsigned long)(r)->buffer_[OLD((r)->index_) + 1])")
out.append("c #define LE2(r) (LE1(r) | ((unsigned long)(r)->buffer_[OLD((r)->index_) + 2] << 8))")
out.append("c #define LE4(r) (LE2(r) | ((unsigned long)(r)->buffer_[OLD((r)->index_) + 3] << 16) | ((unsigned long)(r)->buffer_[OLD((r)->index_) + 4] << 24))")
out.append("c #define LE8(r) (LE4(r) | ((unsigned long)(r)->buffer_[OLD((r)->index_) + 5] << 32) | ((unsigned long)(r)->buffer_[OLD((r)->index_) + 6] << 40) | ((unsigned long)(r)->buffer_[OLD((r)->index_) + 7] << 48) | ((unsigned long)(r)->buffer_[OLD((r)->index_) + 8] << 56))")
# ghosts: vt_p = prefix byte at the reader position, vt_dl = encoding length it selects (0: not an unsigned class)
GH = "requires reader->index_ < reader->size_ ==> (vt_p == reader->buffer_[reader->index_] && vt_dl == VT_DECLEN_UINT(vt_p, 8))"
out.append("contract nop::EncodingIO<unsigned long>::Read<nop::PedanticBufferReader>\n"
  "  requires PB_PRE(reader) && FRESH(value)\n  " + GH + "\n"
  "  assigns *value, reader->index_\n"
  "  ensures reader->index_ <= reader->size_\n"
  "  ensures ERR(RET) == 0 ==> (PB_AVAIL(reader) >= 1 && vt_dl != 0 && PB_AVAIL(reader) >= vt_dl)\n"
  "  ensures (PB_AVAIL(reader) >= 1 && vt_dl != 0 && PB_AVAIL(reader) >= vt_dl) ==> (ERR(RET) == 0 && reader->index_ == OLD(reader->index_) + vt_dl)\n"
  "  ensures (ERR(RET) == 0 && vt_dl == 1) ==> *value == vt_p\n"
  "  ensures (ERR(RET) == 0 && vt_dl == 2) ==> *value == LE1(reader)\n"
  "  ensures (ERR(RET) == 0 && vt_dl == 3) ==> *value == LE2(reader)\n"
  "  ensures (ERR(RET) == 0 && vt_dl == 5) ==> *value == LE4(reader)\n"
  "  ensures (ERR(RET) == 0 && vt_dl == 9) ==> *value == LE8(reader)\n"
  "  ensures (PB_AVAIL(reader) >= 1 && vt_dl == 0) ==> (ERR(RET) == E_UnexpectedEncodingType && reader->index_ == OLD(reader->index_) + 1)\n"
  "  ensures (PB_AVAIL(reader) == 0 || (vt_dl != 0 && PB_AVAIL(reader) < vt_dl)) ==> ERR(RET) == E_ReadLimitReached\n"
  )
out.append("job tb_fn_read_u64_ped\n  props C08 C04\n  pre vt_p = nondet_uchar(); vt_dl = nondet_ulong();\n  enforce nop::EncodingIO<unsigned long>::Read<nop::PedanticBufferReader>\n  timeout 900\n")
out.append("contract nop::PedanticBufferReader::Skip(unsigned long)\n"
  "  requires FRESH(this) && this->size_ <= VT_MAXLEN && this->index_ <= this->size_ && FRESHN(this->buffer_, this->size_)\n"
  "  assigns this->index_\n"
  "  ensures this->index_ <= this->size_\n"
  "  ensures padding_bytes <= this->size_ - OLD(this->index_) ==> (ERR(RET) == 0 && this->index_ == OLD(this->index_) + padding_bytes)\n"
  "  ensures padding_bytes > this->size_ - OLD(this->index_) ==> (ERR(RET) == E_ReadLimitReached && this->index_ == OLD(this->index_))\n")
out.append("job tb_fn_ped_skip\n  props C08\n  enforce nop::PedanticBufferReader::Skip(unsigned long)\n")
# the declared size as a ghost: vt_val == the little-endian value of the size field at the reader position
VAL = ("requires (reader->index_ < reader->size_ && vt_dl != 0 && reader->size_ - reader->index_ >= vt_dl) ==> vt_val == "
       "(vt_dl == 1 ? (unsigned long)vt_p : vt_dl == 2 ? (unsigned long)reader->buffer_[reader->index_ + 1] : "
       "vt_dl == 3 ? ((unsigned long)reader->buffer_[reader->index_ + 1] | ((unsigned long)reader->buffer_[reader->index_ + 2] << 8)) : "
       "vt_dl == 5 ? ((unsigned long)reader->buffer_[reader->index_ + 1] | ((unsigned long)reader->buffer_[reader->index_ + 2] << 8) | ((unsigned long)reader->buffer_[reader->index_ + 3] << 16) | ((unsigned long)reader->buffer_[reader->index_ + 4] << 24)) : "
       "((unsigned long)reader->buffer_[reader->index_ + 1] | ((unsigned long)reader->buffer_[reader->index_ + 2] << 8) | ((unsigned long)reader->buffer_[reader->index_ + 3] << 16) | ((unsigned long)reader->buffer_[reader->index_ + 4] << 24) | "
       "((unsigned long)reader->buffer_[reader->index_ + 5] << 32) | ((unsigned long)reader->buffer_[reader->index_ + 6] << 40) | ((unsigned long)reader->buffer_[reader->index_ + 7] << 48) | ((unsigned long)reader->buffer_[reader->index_ + 8] << 56)))")
out.append("contract nop::Encoding<vt::TW>::SkipEntry<nop::PedanticBufferReader>\n"
  "  requires PB_PRE(reader)\n  " + GH + "\n  " + VAL + "\n"
  "  assigns reader->index_\n"
  "  ensures reader->index_ <= reader->size_\n"
  "  ensures (PB_AVAIL(reader) >= 1 && vt_dl != 0 && PB_AVAIL(reader) >= vt_dl && vt_val <= PB_AVAIL(reader) - vt_dl) ==> (ERR(RET) == 0 && reader->index_ == OLD(reader->index_) + vt_dl + vt_val)\n"
  "  ensures (PB_AVAIL(reader) >= 1 && vt_dl != 0 && PB_AVAIL(reader) >= vt_dl && vt_val > PB_AVAIL(reader) - vt_dl) ==> ERR(RET) == E_ReadLimitReached\n"
  "  ensures (PB_AVAIL(reader) >= 1 && vt_dl == 0) ==> ERR(RET) == E_UnexpectedEncodingType\n"
  "  ensures (PB_AVAIL(reader) == 0 || (vt_dl != 0 && PB_AVAIL(reader) < vt_dl)) ==> ERR(RET) == E_ReadLimitReached\n")
out.append("job tb_fn_skip_entry\n  props C08 C07\n  pre vt_p = nondet_uchar(); vt_dl = nondet_ulong(); vt_val = nondet_ulong();\n  enforce nop::Encoding<vt::TW>::SkipEntry<nop::PedanticBufferReader>\n"
           "  replace nop::EncodingIO<unsigned long>::Read<nop::PedanticBufferReader>\n  replace nop::PedanticBufferReader::Skip(unsigned long)\n  timeout 900\n"
           "  note modular and unbounded: every declared entry size (all classes, up to 2^64-1), every buffer length up to 2^40\n")
# ReadEntry of an active uint8_t entry (TW::y): duplicate detection, declared size read through the contract of (1),
# value read through BoundedReader<PedanticBufferReader> (inlined real code) and the padding skipped: for EVERY
# declared size and buffer length.  Ghosts: vt_p2 / vt_dl2 = prefix byte and encoding length of the value inside the frame.
out.append("c unsigned char vt_p2; unsigned long vt_dl2;")
out.append("c #define ENT_EMPTY(e) ((e)->__b0.state_.empty)")
out.append("c #define ENT_VAL(e) ((e)->__b0.state_.storage.value)")
RK = "nop::Encoding<vt::TW>::ReadEntry<unsigned char, 1UL, nop::PedanticBufferReader>"
VALPOS = "(reader->index_ + vt_dl)"
out.append("contract " + RK + "\n"
  "  requires PB_PRE(reader) && FRESH(entry)\n  " + GH + "\n  " + VAL + "\n"
  "  requires (reader->index_ < reader->size_ && vt_dl != 0 && reader->size_ - reader->index_ > vt_dl) ==> (vt_p2 == reader->buffer_[reader->index_ + vt_dl] && vt_dl2 == VT_DECLEN_UINT(vt_p2, 1))\n"
  "  assigns reader->index_, __CPROVER_object_whole(entry)\n"
  "  ensures reader->index_ <= reader->size_\n"
  "  ensures !OLD(ENT_EMPTY(entry)) ==> (ERR(RET) == E_DuplicateTableEntry && reader->index_ == OLD(reader->index_))\n"
  "  ensures ERR(RET) == 0 ==> (OLD(ENT_EMPTY(entry)) && PB_AVAIL(reader) >= 1 && vt_dl != 0 && PB_AVAIL(reader) > vt_dl && vt_dl2 != 0 && vt_dl2 <= vt_val && vt_val <= PB_AVAIL(reader) - vt_dl)\n"
  "  ensures (OLD(ENT_EMPTY(entry)) && PB_AVAIL(reader) >= 1 && vt_dl != 0 && PB_AVAIL(reader) > vt_dl && vt_dl2 != 0 && vt_dl2 <= vt_val && vt_val <= PB_AVAIL(reader) - vt_dl) ==> ERR(RET) == 0\n"
  "  ensures ERR(RET) == 0 ==> (reader->index_ == OLD(reader->index_) + vt_dl + vt_val && !ENT_EMPTY(entry))\n"
  "  ensures (ERR(RET) == 0 && vt_dl2 == 1) ==> ENT_VAL(entry) == vt_p2\n"
  "  ensures (ERR(RET) == 0 && vt_dl2 == 2) ==> ENT_VAL(entry) == reader->buffer_[OLD(reader->index_) + vt_dl + 1]\n")
out.append("job tb_fn_read_entry_u8\n  props C08 C07\n  pre vt_p = nondet_uchar(); vt_dl = nondet_ulong(); vt_val = nondet_ulong(); vt_p2 = nondet_uchar(); vt_dl2 = nondet_ulong();\n  enforce " + RK + "\n"
           "  replace nop::EncodingIO<unsigned long>::Read<nop::PedanticBufferReader>\n  timeout 1800\n"
           "  note modular and unbounded: duplicate detection, declared size smaller / equal / larger than the value, padding skipped exactly — every size, every buffer length up to 2^40\n")
# Write side: (w1) EncodingIO<uint64_t>::Write over PedanticBufferWriter against the class rules; (w2) WriteEntry of an
# active uint8_t entry with (w1) replaced: id, declared size == bytes that follow (value, no padding for a handle-free
# value), nothing at all for an empty entry; every buffer length and position.
out.append("c #define PW_PRE(w) (FRESH(w) && (w)->size_ <= VT_MAXLEN && (w)->index_ <= (w)->size_ && FRESHN((w)->buffer_, (w)->size_))")
out.append("c #define PW_ROOM(w) ((w)->size_ - OLD((w)->index_))")
WK = "nop::EncodingIO<unsigned long>::Write<nop::PedanticBufferWriter>"
out.append("contract " + WK + "\n"
  "  requires PW_PRE(writer) && FRESH(value) && vt_dl == VT_LEN_UINT(*value)\n"
  "  assigns vt_dl <= writer->size_ - writer->index_: __CPROVER_object_upto(writer->buffer_ + writer->index_, vt_dl)\n"
  "  assigns (vt_dl > writer->size_ - writer->index_ && writer->index_ < writer->size_): writer->buffer_[writer->index_]\n"
  "  assigns writer->index_\n"
  "  ensures writer->index_ <= writer->size_\n"
  "  ensures PW_ROOM(writer) >= VT_LEN_UINT(*value) ==> (ERR(RET) == 0 && writer->index_ == OLD(writer->index_) + VT_LEN_UINT(*value) && writer->buffer_[OLD(writer->index_)] == VT_PREFIX_UINT(*value))\n"
  "  ensures (PW_ROOM(writer) >= VT_LEN_UINT(*value) && vt_k < VT_LEN_UINT(*value) - 1) ==> writer->buffer_[OLD(writer->index_) + 1 + vt_k] == (unsigned char)((*value) >> (8 * (vt_k & 7)))\n"
  "  ensures PW_ROOM(writer) < VT_LEN_UINT(*value) ==> (ERR(RET) == E_WriteLimitReached && writer->index_ <= OLD(writer->index_) + 1)\n")
out.append("job tb_fn_write_u64_ped\n  props C06 C03\n  pre vt_k = nondet_ulong(); vt_dl = nondet_ulong();\n  enforce " + WK + "\n  timeout 900\n")
WE = "nop::Encoding<vt::TW>::WriteEntry<unsigned char, 1UL, nop::PedanticBufferWriter>"
SZ = "(ENT_VAL(entry) <= 0x7f ? 1UL : 2UL)"
out.append("contract " + WE + "\n"
  "  requires PW_PRE(writer) && FRESH(entry)\n"
  "  assigns __CPROVER_object_whole(writer->buffer_), writer->index_\n"
  "  ensures writer->index_ <= writer->size_\n"
  "  ensures ENT_EMPTY(entry) ==> (ERR(RET) == 0 && writer->index_ == OLD(writer->index_))\n"
  "  ensures (!ENT_EMPTY(entry) && PW_ROOM(writer) >= 2 + " + SZ + ") ==> (ERR(RET) == 0 && writer->index_ == OLD(writer->index_) + 2 + " + SZ + ")\n"
  "  ensures (!ENT_EMPTY(entry) && PW_ROOM(writer) >= 2 + " + SZ + ") ==> (writer->buffer_[OLD(writer->index_)] == 1 && writer->buffer_[OLD(writer->index_) + 1] == " + SZ + ")\n"
  "  ensures (!ENT_EMPTY(entry) && PW_ROOM(writer) >= 2 + " + SZ + " && ENT_VAL(entry) <= 0x7f) ==> writer->buffer_[OLD(writer->index_) + 2] == ENT_VAL(entry)\n"
  "  ensures (!ENT_EMPTY(entry) && PW_ROOM(writer) >= 2 + " + SZ + " && ENT_VAL(entry) > 0x7f) ==> (writer->buffer_[OLD(writer->index_) + 2] == FMT_U8 && writer->buffer_[OLD(writer->index_) + 3] == ENT_VAL(entry))\n"
  "  ensures (!ENT_EMPTY(entry) && PW_ROOM(writer) < 2 + " + SZ + ") ==> ERR(RET) == E_WriteLimitReached\n")
out.append("contract nop::PedanticBufferWriter::Skip(unsigned long, unsigned char)\n"
  "  requires FRESH(this) && this->size_ <= VT_MAXLEN && this->index_ <= this->size_ && FRESHN(this->buffer_, this->size_)\n"
  "  assigns padding_bytes <= this->size_ - this->index_: __CPROVER_object_upto(this->buffer_ + this->index_, padding_bytes)\n"
  "  assigns this->index_\n"
  "  ensures this->index_ <= this->size_\n"
  "  ensures padding_bytes <= this->size_ - OLD(this->index_) ==> (ERR(RET) == 0 && this->index_ == OLD(this->index_) + padding_bytes)\n"
  "  ensures padding_bytes > this->size_ - OLD(this->index_) ==> (ERR(RET) == E_WriteLimitReached && this->index_ == OLD(this->index_))\n")
out.append("job tb_fn_write_entry_u8\n  props C06 C03 C07\n  pre vt_k = nondet_ulong(); vt_dl = 1;\n  enforce " + WE + "\n  replace " + WK + "\n  replace nop::PedanticBufferWriter::Skip(unsigned long, unsigned char)\n  tier thorough\n  timeout 3600\n"
           "  note modular: the entry's id and declared size go through the replaced uint64 encoder contract; declared size == bytes that follow\n")
print("\n".join(out))
