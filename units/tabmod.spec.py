#!/usr/bin/env python3
# jobs for units/tabmod.cpp — see the header of that file.  Every level is enforced with the levels below REPLACED by
# their contracts; buffer lengths up to 2^40, every entry count up to 2^64-1 (loop contract, decreases clause).
out = ["nop2cflags --hoist=status --hoist=id"]
out.append("c #define VT_MAXLEN (1UL << 40)")
out.append("c unsigned long vt_pos0;")
out.append("c #define PBW(r) (FRESH(r) && (r)->size_ <= VT_MAXLEN && (r)->index_ <= (r)->size_ && FRESHN((r)->buffer_, (r)->size_))")
STEP = "reader->index_ <= reader->size_ && reader->index_ >= OLD(reader->index_)"
U64 = "nop::EncodingIO<unsigned long>::Read<nop::PedanticBufferReader>"
out.append("contract " + U64 + "\n  requires PBW(reader) && FRESH(value)\n  assigns *value, reader->index_\n"
           "  ensures " + STEP + " && reader->index_ - OLD(reader->index_) <= 9\n  ensures ERR(RET) == 0 ==> reader->index_ - OLD(reader->index_) >= 1\n")
out.append("job tm_fn_read_u64\n  props C08 C02\n  enforce " + U64 + "\n  timeout 900\n")
SK = "nop::Encoding<vt::TW>::SkipEntry<nop::PedanticBufferReader>"
out.append("contract " + SK + "\n  requires PBW(reader)\n  assigns reader->index_\n  ensures " + STEP + "\n  ensures ERR(RET) == 0 ==> reader->index_ - OLD(reader->index_) >= 1\n")
out.append("job tm_fn_skip_entry\n  props C08 C02\n  enforce " + SK + "\n  replace " + U64 + "\n  timeout 900\n")
RE = []
for ct, idn in (("unsigned int", "0UL"), ("unsigned char", "1UL")):
    k = "nop::Encoding<vt::TW>::ReadEntry<%s, %s, nop::PedanticBufferReader>" % (ct, idn)
    RE.append(k)
    out.append("contract " + k + "\n  requires PBW(reader) && FRESH(entry)\n  assigns __CPROVER_object_whole(entry), reader->index_\n  ensures " + STEP + "\n  ensures ERR(RET) == 0 ==> reader->index_ - OLD(reader->index_) >= 1\n")
    out.append("job tm_fn_read_entry_%s\n  props C08 C02\n  enforce %s\n  replace %s\n  timeout 1800\n  note the value is read through BoundedReader<PedanticBufferReader> (real code, inlined)\n" % (ct.split()[-1], k, U64))
FI = "nop::Encoding<vt::TW>::ReadEntryForId<nop::PedanticBufferReader, 2UL>"
out.append("contract " + FI + "\n  requires PBW(reader) && FRESH(value)\n  assigns __CPROVER_object_whole(value), reader->index_\n  ensures " + STEP + "\n  ensures ERR(RET) == 0 ==> reader->index_ - OLD(reader->index_) >= 1\n")
out.append("job tm_fn_read_entry_for_id\n  props C08 C02\n  enforce " + FI + "\n  replace " + RE[0] + "\n  replace " + RE[1] + "\n  replace " + SK + "\n  timeout 900\n")
ES = "nop::Encoding<vt::TW>::ReadEntries<nop::PedanticBufferReader>"
out.append("contract " + ES + "\n  requires PBW(reader) && FRESH(value) && vt_pos0 == reader->index_\n  assigns __CPROVER_object_whole(value), reader->index_\n"
           "  ensures " + STEP + "\n  ensures ERR(RET) == 0 ==> (count <= VT_MAXLEN / 2 && reader->index_ - OLD(reader->index_) >= 2 * count)\n")
out.append("loop " + ES + " #0\n  assigns i, id, status, __CPROVER_object_whole(value), reader->index_\n"
           "  invariant i <= count && i <= VT_MAXLEN / 2 && reader->index_ <= reader->size_ && reader->size_ <= VT_MAXLEN\n"
           "  invariant reader->index_ >= vt_pos0 && reader->index_ - vt_pos0 >= 2 * i\n"
           "  decreases count - i\n")
out.append("job tm_fn_read_entries\n  props C08 C02\n  pre vt_pos0 = nondet_ulong();\n  enforce " + ES + "\n  loops\n  replace " + U64 + "\n  replace " + FI + "\n  timeout 900\n"
           "  note unbounded by LOOP CONTRACT: every entry count up to 2^64-1 terminates inside the buffer; success means every one of `count` entries was present (>= 2 bytes each): an inflated count field is an error, never a short success\n")
print("\n".join(out))
