// C07 / C08 — tables: framing (hash, duplicates, declared sizes, padding, order) against the
// specification decoder, and compatibility across definition versions in both directions.
#include <array>
#include <limits>
#include <new>
#include <nop/base/encoding.h>
#include <nop/base/members.h>
#include <nop/base/optional.h>
#include <nop/base/serializer.h>
#include <nop/base/table.h>
#include <nop/base/value.h>
#include <nop/structure.h>
#include <nop/table.h>
#include <nop/value.h>

#include "lemmas.h"

namespace vt {
using BndR = nop::BoundedReader<nop::PedanticBufferReader>;

struct V8 {
  std::uint8_t v;
  NOP_VALUE(V8, v);
};
template <>
struct Fmt<V8> {
  static void enc(fmt::Out& o, const V8& v) { Fmt<std::uint8_t>::enc(o, v.v); }
  static bool dec(fmt::In& in, V8* v) { return Fmt<std::uint8_t>::dec(in, &v->v); }
};
template <>
struct Gen<V8> {
  static void make(V8* v) { v->v = nondet<std::uint8_t>(); }
  static bool eq(const V8& a, const V8& b) { return a.v == b.v; }
};

// one table, several definition versions (same hash 7, ids never reused)
struct TW {  // version 1
  nop::Entry<std::uint32_t, 0> x;
  nop::Entry<std::uint8_t, 1> y;
  NOP_TABLE_HASH(7, TW, x, y);
};
struct TR1 {  // version 2: y first (reordered), z added, x marked deleted
  nop::Entry<std::uint8_t, 1> y;
  nop::Entry<std::int16_t, 2> z;
  nop::Entry<std::uint32_t, 0, nop::DeletedEntry> x;
  NOP_TABLE_HASH(7, TR1, y, z, x);
};
struct TR2 {  // version 3: y removed altogether
  nop::Entry<std::uint32_t, 0> x;
  NOP_TABLE_HASH(7, TR2, x);
};
struct TF {  // version 4: y's type replaced by a fungible one (value wrapper around uint8_t)
  nop::Entry<std::uint32_t, 0> x;
  nop::Entry<V8, 1> y;
  NOP_TABLE_HASH(7, TF, x, y);
};
// tables nested in a table entry, hash computed from a name
struct TN {
  nop::Entry<std::int8_t, 0> p;
  nop::Entry<TW, 3> inner;
  NOP_TABLE_NS("vt.TN", TN, p, inner);
};
struct TN2 {
  nop::Entry<TR1, 3> inner;
  nop::Entry<std::int8_t, 0, nop::DeletedEntry> p;
  NOP_TABLE_NS("vt.TN", TN2, inner, p);
};

// entry ids that need the U16 and the U64 integer class (ids are never reused, so they only grow over versions)
struct TBIG {
  nop::Entry<std::uint8_t, 300> a;
  nop::Entry<std::uint8_t, 0x100000005ULL> b;
  NOP_TABLE_HASH(9, TBIG, a, b);
};

// an entry whose value type is itself an Optional: present-with-empty-value and absent are different states
using OI8 = nop::Optional<std::int8_t>;
struct TOPT {
  nop::Entry<OI8, 0> a;
  nop::Entry<std::uint8_t, 1> b;
  NOP_TABLE_HASH(11, TOPT, a, b);
};

template <typename E>
inline std::uint64_t present(const E& e) { return e.empty() ? 0 : 1; }

template <>
struct Fmt<TOPT> {
  static void enc(fmt::Out& o, const TOPT& v) {
    fmt::put(o, FMT_TAB);
    fmt::enc_uint(o, 11);
    fmt::enc_uint(o, present(v.a) + present(v.b));
    fmt::enc_entry(o, 0, v.a, 0);
    fmt::enc_entry(o, 1, v.b, 0);
  }
  static bool dec(fmt::In& in, TOPT* v) {
    v->a.clear();
    v->b.clear();
    std::uint64_t count;
    if (!fmt::dec_table_header(in, 11, &count)) return false;
    for (std::uint64_t i = 0; i < count; i++) {
      std::uint64_t id;
      if (!fmt::dec_uint(in, 8, &id)) return false;
      if (id == 0) { if (!fmt::dec_entry<OI8>(in, &v->a)) return false; }
      else if (id == 1) { if (!fmt::dec_entry<std::uint8_t>(in, &v->b)) return false; }
      else if (!fmt::skip_entry(in)) return false;
    }
    return true;
  }
};
template <>
struct Gen<TOPT> {
  static void make(TOPT* v) {
    const std::uint8_t k = nondet<std::uint8_t>() % 3;  // absent, present holding an empty Optional, present holding a value
    if (k == 0) v->a.clear();
    else if (k == 1) static_cast<nop::Optional<OI8>&>(v->a) = nop::Optional<OI8>(OI8());
    else static_cast<nop::Optional<OI8>&>(v->a) = nop::Optional<OI8>(OI8(nondet<std::int8_t>()));
    if (nondet<bool>()) v->b = nondet<std::uint8_t>(); else v->b.clear();
  }
  static bool eq(const TOPT& x, const TOPT& y) {
    if (x.a.empty() != y.a.empty() || !(x.b == y.b)) return false;
    if (x.a.empty()) return true;
    if (x.a.get().empty() != y.a.get().empty()) return false;
    return x.a.get().empty() || x.a.get().get() == y.a.get().get();
  }
};

template <>
struct Fmt<TBIG> {
  static void enc(fmt::Out& o, const TBIG& v) {
    fmt::put(o, FMT_TAB);
    fmt::enc_uint(o, 9);
    fmt::enc_uint(o, present(v.a) + present(v.b));
    fmt::enc_entry(o, 300, v.a, 0);
    fmt::enc_entry(o, 0x100000005ULL, v.b, 0);
  }
  static bool dec(fmt::In& in, TBIG* v) {
    v->a.clear();
    v->b.clear();
    std::uint64_t count;
    if (!fmt::dec_table_header(in, 9, &count)) return false;
    for (std::uint64_t i = 0; i < count; i++) {
      std::uint64_t id;
      if (!fmt::dec_uint(in, 8, &id)) return false;
      if (id == 300) { if (!fmt::dec_entry<std::uint8_t>(in, &v->a)) return false; }
      else if (id == 0x100000005ULL) { if (!fmt::dec_entry<std::uint8_t>(in, &v->b)) return false; }
      else if (!fmt::skip_entry(in)) return false;
    }
    return true;
  }
};
template <>
struct Gen<TBIG> {
  static void make(TBIG* v) {
    if (nondet<bool>()) v->a = nondet<std::uint8_t>(); else v->a.clear();
    if (nondet<bool>()) v->b = nondet<std::uint8_t>(); else v->b.clear();
  }
  static bool eq(const TBIG& a, const TBIG& b) { return a.a == b.a && a.b == b.b; }
};

// ---- schemas
template <>
struct Fmt<TW> {
  static void enc(fmt::Out& o, const TW& v) {
    fmt::put(o, FMT_TAB);
    fmt::enc_uint(o, 7);
    fmt::enc_uint(o, present(v.x) + present(v.y));
    fmt::enc_entry(o, 0, v.x, 0);
    fmt::enc_entry(o, 1, v.y, 0);
  }
  static bool dec(fmt::In& in, TW* v) {
    v->x.clear();
    v->y.clear();
    std::uint64_t count;
    if (!fmt::dec_table_header(in, 7, &count)) return false;
    for (std::uint64_t i = 0; i < count; i++) {
      std::uint64_t id;
      if (!fmt::dec_uint(in, 8, &id)) return false;
      if (id == 0) { if (!fmt::dec_entry<std::uint32_t>(in, &v->x)) return false; }
      else if (id == 1) { if (!fmt::dec_entry<std::uint8_t>(in, &v->y)) return false; }
      else if (!fmt::skip_entry(in)) return false;
    }
    return true;
  }
};
template <>
struct Gen<TW> {
  static void make(TW* v) {
    if (nondet<bool>()) v->x = nondet<std::uint32_t>(); else v->x.clear();
    if (nondet<bool>()) v->y = nondet<std::uint8_t>(); else v->y.clear();
  }
  static bool eq(const TW& a, const TW& b) { return a.x == b.x && a.y == b.y; }
};
template <>
struct Fmt<TR1> {
  static void enc(fmt::Out& o, const TR1& v) {
    fmt::put(o, FMT_TAB);
    fmt::enc_uint(o, 7);
    fmt::enc_uint(o, present(v.y) + present(v.z));
    fmt::enc_entry(o, 1, v.y, 0);
    fmt::enc_entry(o, 2, v.z, 0);
  }
  static bool dec(fmt::In& in, TR1* v) {
    v->y.clear();
    v->z.clear();
    std::uint64_t count;
    if (!fmt::dec_table_header(in, 7, &count)) return false;
    for (std::uint64_t i = 0; i < count; i++) {
      std::uint64_t id;
      if (!fmt::dec_uint(in, 8, &id)) return false;
      if (id == 1) { if (!fmt::dec_entry<std::uint8_t>(in, &v->y)) return false; }
      else if (id == 2) { if (!fmt::dec_entry<std::int16_t>(in, &v->z)) return false; }
      else if (!fmt::skip_entry(in)) return false;  // deleted id 0 and unknown ids
    }
    return true;
  }
};
template <>
struct Gen<TR1> {
  static void make(TR1* v) {
    if (nondet<bool>()) v->y = nondet<std::uint8_t>(); else v->y.clear();
    if (nondet<bool>()) v->z = nondet<std::int16_t>(); else v->z.clear();
  }
  static bool eq(const TR1& a, const TR1& b) { return a.y == b.y && a.z == b.z; }
};
template <>
struct Gen<TR2> {
  static void make(TR2* v) {
    if (nondet<bool>()) v->x = nondet<std::uint32_t>(); else v->x.clear();
  }
  static bool eq(const TR2& a, const TR2& b) { return a.x == b.x; }
};
template <>
struct Gen<TF> {
  static void make(TF* v) {
    if (nondet<bool>()) v->x = nondet<std::uint32_t>(); else v->x.clear();
    if (nondet<bool>()) { V8 w; w.v = nondet<std::uint8_t>(); v->y = w; } else v->y.clear();
  }
  static bool eq(const TF& a, const TF& b) {
    return a.x == b.x && a.y.empty() == b.y.empty() && (a.y.empty() || a.y.get().v == b.y.get().v);
  }
};
constexpr std::uint64_t kTNHash = nop::EntryListTraits<TN>::EntryList::Hash;
template <>
struct Fmt<TN> {
  static void enc(fmt::Out& o, const TN& v) {
    fmt::put(o, FMT_TAB);
    fmt::enc_uint(o, kTNHash);
    fmt::enc_uint(o, present(v.p) + present(v.inner));
    fmt::enc_entry(o, 0, v.p, 0);
    fmt::enc_entry(o, 3, v.inner, 0);
  }
  static bool dec(fmt::In& in, TN* v) {
    v->p.clear();
    v->inner.clear();
    std::uint64_t count;
    if (!fmt::dec_table_header(in, kTNHash, &count)) return false;
    for (std::uint64_t i = 0; i < count; i++) {
      std::uint64_t id;
      if (!fmt::dec_uint(in, 8, &id)) return false;
      if (id == 0) { if (!fmt::dec_entry<std::int8_t>(in, &v->p)) return false; }
      else if (id == 3) { if (!fmt::dec_entry<TW>(in, &v->inner)) return false; }
      else if (!fmt::skip_entry(in)) return false;
    }
    return true;
  }
};
template <>
struct Gen<TN> {
  static void make(TN* v) {
    if (nondet<bool>()) v->p = nondet<std::int8_t>(); else v->p.clear();
    if (nondet<bool>()) { TW t; Gen<TW>::make(&t); v->inner = t; } else v->inner.clear();
  }
  static bool eq(const TN& a, const TN& b) {
    return a.p == b.p && a.inner.empty() == b.inner.empty() && (a.inner.empty() || Gen<TW>::eq(a.inner.get(), b.inner.get()));
  }
};
template <>
struct Gen<TN2> {
  static void make(TN2* v) {
    if (nondet<bool>()) { TR1 t; Gen<TR1>::make(&t); v->inner = t; } else v->inner.clear();
  }
  static bool eq(const TN2& a, const TN2& b) {
    return a.inner.empty() == b.inner.empty() && (a.inner.empty() || Gen<TR1>::eq(a.inner.get(), b.inner.get()));
  }
};

// ---- C07: what "carries across" means for each ordered pair of versions
template <typename W, typename R>
struct Carry;
template <>
struct Carry<TW, TR1> {
  static bool ok(const TW& w, const TR1& r) { return r.y == w.y && r.z.empty(); }  // x is deleted on the reading side
};
template <>
struct Carry<TR1, TW> {
  static bool ok(const TR1& w, const TW& r) { return r.y == w.y && r.x.empty(); }  // z unknown to the reader, x never written
};
template <>
struct Carry<TW, TR2> {
  static bool ok(const TW& w, const TR2& r) { return r.x == w.x; }
};
template <>
struct Carry<TR2, TW> {
  static bool ok(const TR2& w, const TW& r) { return r.x == w.x && r.y.empty(); }
};
template <>
struct Carry<TW, TF> {
  static bool ok(const TW& w, const TF& r) {
    return r.x == w.x && r.y.empty() == w.y.empty() && (w.y.empty() || r.y.get().v == w.y.get());
  }
};
template <>
struct Carry<TF, TW> {
  static bool ok(const TF& w, const TW& r) {
    return r.x == w.x && r.y.empty() == w.y.empty() && (w.y.empty() || r.y.get() == w.y.get().v);
  }
};
template <>
struct Carry<TN, TN2> {
  static bool ok(const TN& w, const TN2& r) {
    return r.inner.empty() == w.inner.empty() && (w.inner.empty() || Carry<TW, TR1>::ok(w.inner.get(), r.inner.get()));
  }
};
template <>
struct Carry<TN2, TN> {
  static bool ok(const TN2& w, const TN& r) {
    return r.p.empty() && r.inner.empty() == w.inner.empty() && (w.inner.empty() || Carry<TR1, TW>::ok(w.inner.get(), r.inner.get()));
  }
};

template <typename W, typename R, typename RD>
void lemma_versions() {
  W w;
  Gen<W>::make(&w);
  const std::uint16_t sentinel = nondet<std::uint16_t>();
  std::uint8_t buf[fmt::kCap];
  nop::PedanticBufferWriter pw(buf, sizeof buf);
  nop::Serializer<nop::PedanticBufferWriter*> s{&pw};
  auto w1 = s.Write(w);
  const std::size_t table_len = pw.size();
  auto w2 = s.Write(sentinel);
  vt_check(static_cast<bool>(w1) && static_cast<bool>(w2), "writing the table and the value after it succeeds");
  ReaderKit<RD> rk;
  rk.init(buf, pw.size());
  nop::Deserializer<typename ReaderKit<RD>::Reader*> d{rk.reader()};
  R r;
  Gen<R>::make(&r);  // the reader-side object starts with arbitrary stale entries
  auto r1 = d.Read(&r);
  vt_check(static_cast<bool>(r1), "data written with one definition is read successfully by the other");
  vt_check(Carry<W, R>::ok(w, r), "shared active entries carry their value; unknown / deleted / absent / empty ones read as empty");
  vt_check(rk.consumed() == table_len, "the reader ends positioned exactly after the table");
  std::uint16_t back = 0;
  auto r2 = d.Read(&back);
  vt_check(static_cast<bool>(r2) && back == sentinel, "the value following the table reads back");
  vt_cover(true, "versions lemma end");
}

// ---- C08: single-defect inputs and their categories, built with the specification encoder
inline void lemma_table_defects() {
  TW w;
  Gen<TW>::make(&w);
  fmt::Out o;
  fmt::init(o);
  const std::uint8_t kind = nondet<std::uint8_t>();
  const std::uint64_t bad_hash = nondet<std::uint64_t>();
  const std::uint64_t extra = nondet<std::uint8_t>() % 4;
  // kind 0: wrong hash; 1: entry x duplicated; 2: entry y duplicated; 3: declared size of x shrunk by one;
  // 4: surplus `extra` padding bytes after x (valid); 5: entries in the opposite order (valid)
  fmt::put(o, FMT_TAB);
  fmt::enc_uint(o, kind == 0 ? bad_hash : 7);
  std::uint64_t count = present(w.x) + present(w.y);
  if (kind == 1) count += present(w.x);
  if (kind == 2) count += present(w.y);
  fmt::enc_uint(o, count);
  if (kind == 5) {
    fmt::enc_entry(o, 1, w.y, 0);
    fmt::enc_entry(o, 0, w.x, 0);
  } else {
    if (kind == 3 && !w.x.empty()) {
      fmt::Out tmp;
      fmt::init(tmp);
      Fmt<std::uint32_t>::enc(tmp, w.x.get());
      fmt::enc_uint(o, 0);
      fmt::enc_uint(o, tmp.n - 1);  // one byte too small for the value
      for (std::size_t i = 0; i < 5; i++)
        if (i < tmp.n) fmt::put(o, tmp.b[i]);
    } else {
      fmt::enc_entry(o, 0, w.x, kind == 4 ? extra : 0);
    }
    if (kind == 1) fmt::enc_entry(o, 0, w.x, 0);
    fmt::enc_entry(o, 1, w.y, 0);
    if (kind == 2) fmt::enc_entry(o, 1, w.y, 0);
  }
  vt_assume(o.n <= fmt::kCap);
  nop::PedanticBufferReader pr(o.b, o.n);
  nop::Deserializer<nop::PedanticBufferReader*> d{&pr};
  TW r;
  Gen<TW>::make(&r);
  auto st = d.Read(&r);
  if (kind == 0 && bad_hash != 7) vt_check(st.error() == nop::ErrorStatus::InvalidTableHash, "a different hash is rejected with InvalidTableHash");
  else if (kind == 1 && !w.x.empty()) vt_check(st.error() == nop::ErrorStatus::DuplicateTableEntry, "a repeated active id is rejected with DuplicateTableEntry");
  else if (kind == 2 && !w.y.empty()) vt_check(st.error() == nop::ErrorStatus::DuplicateTableEntry, "a repeated active id is rejected with DuplicateTableEntry (second entry)");
  else if (kind == 3 && !w.x.empty()) vt_check(!static_cast<bool>(st), "a declared size smaller than the value needs is rejected");
  else if (kind <= 5) {
    vt_check(static_cast<bool>(st), "valid table (with surplus padding / in another order) is accepted");
    vt_check(Gen<TW>::eq(r, w), "entries carry their values regardless of order and padding");
    vt_check(pr.remaining() == 0, "exactly the surplus bytes are skipped");
  }
  vt_cover(kind == 1 && !w.x.empty(), "duplicate reached");
  vt_cover(kind == 4 && extra == 3 && !w.x.empty(), "three padding bytes reached");
  vt_cover(kind == 3 && !w.x.empty(), "shrunk size reached");
}

}  // namespace vt

VT_HARNESS(h_enc_tw) { vt::lemma_encode<vt::TW>(); }
VT_HARNESS(h_enc_tr1) { vt::lemma_encode<vt::TR1>(); }
VT_HARNESS(h_enc_tn) { vt::lemma_encode<vt::TN>(); }
VT_HARNESS(h_enc_topt) { vt::lemma_encode<vt::TOPT>(); }
VT_HARNESS(h_dec_topt_ped) { vt::lemma_decode<vt::TOPT, nop::PedanticBufferReader, 9, false, false>(); }
VT_HARNESS(h_rt_topt_ped_ped) { vt::lemma_roundtrip<vt::TOPT, nop::PedanticBufferWriter, nop::PedanticBufferReader>(); }
VT_HARNESS(h_enc_tbig) { vt::lemma_encode<vt::TBIG>(); }
VT_HARNESS(h_cap_tbig_bw) { vt::lemma_capacity<vt::TBIG, nop::BufferWriter, 22>(); }
VT_HARNESS(h_rt_tbig_ped_ped) { vt::lemma_roundtrip<vt::TBIG, nop::PedanticBufferWriter, nop::PedanticBufferReader>(); }
VT_HARNESS(h_dec_tw_ped) { vt::lemma_decode<vt::TW, nop::PedanticBufferReader, 10, false, false>(); }
VT_HARNESS(h_dec_tw_ped14) { vt::lemma_decode<vt::TW, nop::PedanticBufferReader, 14, false, false>(); }
VT_HARNESS(h_dec_tw_buf) { vt::lemma_decode<vt::TW, nop::BufferReader, 10, false, false>(); }
VT_HARNESS(h_dec_tw_bnd) { vt::lemma_decode<vt::TW, vt::BndR, 10, false, false>(); }
VT_HARNESS(h_dec_tr1_ped) { vt::lemma_decode<vt::TR1, nop::PedanticBufferReader, 10, false, false>(); }
VT_HARNESS(h_dec_tn_ped) { vt::lemma_decode<vt::TN, nop::PedanticBufferReader, 18, false, false>(); }
VT_HARNESS(h_trunc_tw_ped) { vt::lemma_truncate<vt::TW, nop::PedanticBufferReader, 10, false>(); }
VT_HARNESS(h_trunc_tw_buf) { vt::lemma_truncate<vt::TW, nop::BufferReader, 14, false>(); }
VT_HARNESS(h_trunc_tr1_ped) { vt::lemma_truncate<vt::TR1, nop::PedanticBufferReader, 10, false>(); }
VT_HARNESS(h_rt_tw_ped_ped) { vt::lemma_roundtrip<vt::TW, nop::PedanticBufferWriter, nop::PedanticBufferReader>(); }
VT_HARNESS(h_rt_tn_ped_ped) { vt::lemma_roundtrip<vt::TN, nop::PedanticBufferWriter, nop::PedanticBufferReader>(); }
VT_HARNESS(h_cap_tw_bw) { vt::lemma_capacity<vt::TW, nop::BufferWriter, 14>(); }
VT_HARNESS(h_faultw_tw) { vt::lemma_fault_write<vt::TW>(); }
VT_HARNESS(h_faultr_tw) { vt::lemma_fault_read<vt::TW, 10, false>(); }
VT_HARNESS(h_defects_tw) { vt::lemma_table_defects(); }
VT_HARNESS(h_ver_tw_tr1) { vt::lemma_versions<vt::TW, vt::TR1, nop::PedanticBufferReader>(); }
VT_HARNESS(h_ver_tr1_tw) { vt::lemma_versions<vt::TR1, vt::TW, nop::PedanticBufferReader>(); }
VT_HARNESS(h_ver_tw_tr2) { vt::lemma_versions<vt::TW, vt::TR2, nop::PedanticBufferReader>(); }
VT_HARNESS(h_ver_tr2_tw) { vt::lemma_versions<vt::TR2, vt::TW, nop::PedanticBufferReader>(); }
VT_HARNESS(h_ver_tw_tf) { vt::lemma_versions<vt::TW, vt::TF, nop::PedanticBufferReader>(); }
VT_HARNESS(h_ver_tf_tw) { vt::lemma_versions<vt::TF, vt::TW, nop::PedanticBufferReader>(); }
VT_HARNESS(h_ver_tn_tn2) { vt::lemma_versions<vt::TN, vt::TN2, nop::PedanticBufferReader>(); }
VT_HARNESS(h_ver_tn2_tn) { vt::lemma_versions<vt::TN2, vt::TN, nop::PedanticBufferReader>(); }
VT_HARNESS(h_ver_tw_tr1_buf) { vt::lemma_versions<vt::TW, vt::TR1, nop::BufferReader>(); }
VT_HARNESS(h_ver_tw_tr1_bnd) { vt::lemma_versions<vt::TW, vt::TR1, vt::BndR>(); }
