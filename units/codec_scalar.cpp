// Scalar codecs (bool, char, every fixed-width integer, float, double, enums): the lemma
// harnesses of spec/lemmas.h instantiated for each type and each shipped reader / writer.
// Jobs: units/codec_scalar.spec.py.
#include <array>
#include <limits>
#include <nop/base/encoding.h>
#include <nop/base/enum.h>
#include <nop/base/serializer.h>

#include "lemmas.h"

namespace vt {
enum class E8 : std::uint8_t { A = 0, B = 200 };
enum class E32 : std::int32_t { N = -70000, Z = 0, P = 70000 };
using BndR = nop::BoundedReader<nop::PedanticBufferReader>;
using BndW = nop::BoundedWriter<nop::PedanticBufferWriter>;
using BndBW = vt::LooseBounded<nop::BufferWriter>;  // bounded (loosely) over the unchecked writer: Prepare must reach it
}  // namespace vt

#define VT_SCALAR_COMMON(T, t, MAXN)                                                              \
  VT_HARNESS(h_enc_##t) { vt::lemma_encode<T>(); }                                                \
  VT_HARNESS(h_dec_##t##_spec) { vt::lemma_decode<T, vt::SpecReader, MAXN, true>(); }             \
  VT_HARNESS(h_dec_##t##_buf) { vt::lemma_decode<T, nop::BufferReader, MAXN, true>(); }           \
  VT_HARNESS(h_dec_##t##_ped) { vt::lemma_decode<T, nop::PedanticBufferReader, MAXN, true>(); }   \
  VT_HARNESS(h_dec_##t##_bnd) { vt::lemma_decode<T, vt::BndR, MAXN, true>(); }                    \
  VT_HARNESS(h_rt_##t##_spec_spec) { vt::lemma_roundtrip<T, vt::SpecWriter, vt::SpecReader>(); }  \
  VT_HARNESS(h_rt_##t##_buf_buf) { vt::lemma_roundtrip<T, nop::BufferWriter, nop::BufferReader>(); } \
  VT_HARNESS(h_rt_##t##_ped_ped) { vt::lemma_roundtrip<T, nop::PedanticBufferWriter, nop::PedanticBufferReader>(); } \
  VT_HARNESS(h_rt_##t##_bnd_bnd) { vt::lemma_roundtrip<T, vt::BndW, vt::BndR>(); }                \
  VT_HARNESS(h_rt_##t##_buf_ped) { vt::lemma_roundtrip<T, nop::BufferWriter, nop::PedanticBufferReader>(); } \
  VT_HARNESS(h_trunc_##t##_spec) { vt::lemma_truncate<T, vt::SpecReader, MAXN>(); }               \
  VT_HARNESS(h_trunc_##t##_buf) { vt::lemma_truncate<T, nop::BufferReader, MAXN>(); }             \
  VT_HARNESS(h_trunc_##t##_ped) { vt::lemma_truncate<T, nop::PedanticBufferReader, MAXN>(); }     \
  VT_HARNESS(h_trunc_##t##_bnd) { vt::lemma_truncate<T, vt::BndR, MAXN>(); }                      \
  VT_HARNESS(h_cap_##t##_bw) { vt::lemma_capacity<T, nop::BufferWriter, MAXN>(); }                \
  VT_HARNESS(h_cap_##t##_pw) { vt::lemma_capacity<T, nop::PedanticBufferWriter, MAXN>(); }        \
  VT_HARNESS(h_cap_##t##_bdw) { vt::lemma_capacity<T, vt::BndW, MAXN>(); }                        \
  VT_HARNESS(h_cap_##t##_bdbw) { vt::lemma_capacity<T, vt::BndBW, MAXN>(); }                      \
  VT_HARNESS(h_faultw_##t) { vt::lemma_fault_write<T>(); }                                        \
  VT_HARNESS(h_faultr_##t) { vt::lemma_fault_read<T, MAXN>(); }

// the constexpr writer has no floating-point support by design
#define VT_SCALAR_CONSTEXPR(T, t, MAXN)                                                           \
  VT_HARNESS(h_rt_##t##_cx_ped) { vt::lemma_roundtrip<T, nop::ConstexprBufferWriter, nop::PedanticBufferReader>(); } \
  VT_HARNESS(h_cap_##t##_cw) { vt::lemma_capacity<T, nop::ConstexprBufferWriter, MAXN>(); }

#define VT_SCALAR_INT(T, t, MAXN) VT_SCALAR_COMMON(T, t, MAXN) VT_SCALAR_CONSTEXPR(T, t, MAXN)

VT_SCALAR_INT(bool, bool, 3)
VT_SCALAR_INT(char, char, 4)
VT_SCALAR_INT(std::uint8_t, u8, 4)
VT_SCALAR_INT(std::int8_t, i8, 4)
VT_SCALAR_INT(std::uint16_t, u16, 5)
VT_SCALAR_INT(std::int16_t, i16, 5)
VT_SCALAR_INT(std::uint32_t, u32, 7)
VT_SCALAR_INT(std::int32_t, i32, 7)
VT_SCALAR_INT(std::uint64_t, u64, 11)
VT_SCALAR_INT(std::int64_t, i64, 11)
VT_SCALAR_INT(vt::E8, e8, 4)
VT_SCALAR_INT(vt::E32, e32, 7)
VT_SCALAR_COMMON(float, f32, 7)
VT_SCALAR_COMMON(double, f64, 11)
