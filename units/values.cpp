// C13 — Optional / Entry / Result / Status keep a consistent state and element lifetime.
// One-step induction per operation: every abstract state of the operands (empty / holding
// an arbitrary value / holding an arbitrary error) is built through the public API, one
// operation chosen by a symbolic selector is applied, and the representation invariant,
// the operation's abstract effect and the ghost lifetime balance are checked.  Constructors
// establish the invariant, every operation preserves it => all finite histories.
#include <array>
#include <limits>
#include <nop/status.h>
#include <nop/table.h>
#include <nop/types/optional.h>
#include <nop/types/result.h>

#include "tracked.h"
#include "vt.h"

namespace vt {

using T0 = Tracked<0>;

// ----------------------------------------------------------------------------- Optional
template <typename O>
void make_optional(O* o, bool* has, int* val) {
  *has = nondet<bool>();
  *val = nondet<int>();
  if (*has) *o = typename std::decay<decltype(o->get())>::type(*val);
}

template <typename O, typename T>
void optional_ops() {
  ghost_reset();
  {
    O a, b;
    bool ha, hb;
    int va, vb;
    vt_check(a.empty() && !static_cast<bool>(a), "default-constructed Optional is empty");
    make_optional(&a, &ha, &va);
    make_optional(&b, &hb, &vb);
    vt_check(a.empty() == !ha && b.empty() == !hb, "empty() reports the state after value assignment");
    vt_check(g_live == (ha ? 1 : 0) + (hb ? 1 : 0) || !std::is_class<T>::value, "live elements == non-empty Optionals");
    const int x = nondet<int>();
    const std::uint8_t op = nondet<std::uint8_t>();
    const bool ha0 = ha, hb0 = hb;
    if (op == 0) {  // copy assignment (a = b)
      a = b;
      vt_check(a.empty() == !hb && b.empty() == !hb, "copy assignment copies the state and leaves the source unchanged");
      if (hb) vt_check(a.get() == T(vb) && b.get() == T(vb), "copy assignment copies the value");
      ha = hb;
    } else if (op == 1) {  // move assignment
      a = std::move(b);
      vt_check(a.empty() == !hb, "move assignment transfers the state");
      if (hb) vt_check(a.get() == T(vb), "move assignment transfers the value");
      vt_check(b.empty(), "moving from an Optional by assignment leaves it empty");
      ha = hb;
      hb = false;
    } else if (op == 2) {  // self copy assignment
      a = a;
      vt_check(a.empty() == !ha, "self assignment keeps the state");
      if (ha) vt_check(a.get() == T(va), "self assignment keeps the value");
    } else if (op == 3) {  // value assignment from an lvalue
      T t(x);
      a = t;
      vt_check(!a.empty() && a.get() == T(x), "assignment of a value makes the Optional hold it");
      ha = true;
    } else if (op == 4) {  // value assignment from an rvalue
      a = T(x);
      vt_check(!a.empty() && a.get() == T(x), "assignment of an rvalue makes the Optional hold it");
      ha = true;
    } else if (op == 5) {
      a.clear();
      vt_check(a.empty(), "clear empties");
      ha = false;
    } else if (op == 6) {  // copy construction
      O c(b);
      vt_check(c.empty() == !hb && b.empty() == !hb, "copy construction copies the state");
      if (hb) vt_check(c.get() == T(vb), "copy construction copies the value");
      vt_check(g_live == (ha ? 1 : 0) + 2 * (hb ? 1 : 0) || !std::is_class<T>::value, "copy construction constructs exactly one more element when non-empty");
    } else if (op == 7) {  // move construction
      O c(std::move(b));
      vt_check(c.empty() == !hb, "move construction transfers the state");
      if (hb) vt_check(c.get() == T(vb), "move construction transfers the value");
    } else if (op == 8) {  // value construction
      T t(x);
      O c(t);
      O d{T(x)};
      vt_check(!c.empty() && c.get() == T(x) && !d.empty() && d.get() == T(x), "value construction holds the value");
    } else if (op == 9) {  // take
      if (ha) {
        T t(a.take());
        vt_check(t == T(va), "take yields the held value");
      }
    } else if (op == 10) {  // self move assignment
      a = std::move(a);
      vt_check(a.empty() == !ha, "self move assignment keeps the state");
    }
    vt_check(a.empty() == !ha && static_cast<bool>(a) == ha, "empty()/bool agree with the abstract state after the operation");
    vt_check(g_live == (ha ? 1 : 0) + (hb ? 1 : 0) || !std::is_class<T>::value, "after the operation: live elements == non-empty Optionals");
    vt_cover(op == 1 && hb0 && ha0, "move assignment between two non-empty Optionals reached");
    vt_cover(op == 0 && hb0 && !ha0, "copy assignment into an empty Optional reached");
  }
  vt_check(g_live == 0 && g_ctor == g_dtor, "every constructed element destroyed exactly once");
  vt_check(g_bad == 0, "no element used, assigned or destroyed while not alive");
}

// total order: empty < every value, otherwise the values decide
inline int ord(bool has, int v) { return has ? 1 : 0; }
inline void relational_ops() {
  nop::Optional<int> a, b;
  const bool ha = nondet<bool>(), hb = nondet<bool>();
  const int va = nondet<int>(), vb = nondet<int>();
  if (ha) a = va;
  if (hb) b = vb;
  const bool lt = (!ha && hb) || (ha && hb && va < vb);
  const bool eq = (!ha && !hb) || (ha && hb && va == vb);
  vt_check((a == b) == eq, "Optional == Optional");
  vt_check((a != b) == !eq, "Optional != Optional");
  vt_check((a < b) == lt, "Optional < Optional: empty is less than every value, otherwise the values decide");
  vt_check((a > b) == (!lt && !eq), "Optional > Optional");
  vt_check((a <= b) == (lt || eq), "Optional <= Optional");
  vt_check((a >= b) == !lt, "Optional >= Optional");
  // Optional - value operands: the value side behaves as a non-empty Optional
  const bool lt_av = !ha || va < vb;       // a < value vb
  const bool eq_av = ha && va == vb;
  vt_check((a == vb) == eq_av, "Optional == value");
  vt_check((a != vb) == !eq_av, "Optional != value");
  vt_check((a < vb) == lt_av, "Optional < value");
  vt_check((a > vb) == (!lt_av && !eq_av), "Optional > value");
  vt_check((a <= vb) == (lt_av || eq_av), "Optional <= value");
  vt_check((a >= vb) == !lt_av, "Optional >= value");
  const bool lt_va = hb && va < vb;        // value va < b
  const bool eq_va = hb && va == vb;
  vt_check((va == b) == eq_va, "value == Optional");
  vt_check((va != b) == !eq_va, "value != Optional");
  vt_check((va < b) == lt_va, "value < Optional");
  vt_check((va > b) == (!lt_va && !eq_va), "value > Optional");
  vt_check((va <= b) == (lt_va || eq_va), "value <= Optional");
  vt_check((va >= b) == !lt_va, "value >= Optional");
  vt_cover(ha && !hb, "non-empty vs empty reached");
  vt_cover(!ha && !hb, "both empty reached");
}

// converting assignments between Optional<U> and Optional<T>, and in-place construction
inline void optional_convert_ops() {
  nop::Optional<int> src;
  const bool hs = nondet<bool>();
  const int vs = nondet<int>();
  if (hs) src = vs;
  nop::Optional<long> dst;
  const bool hd = nondet<bool>();
  if (hd) dst = static_cast<long>(nondet<int>());
  const std::uint8_t op = nondet<std::uint8_t>();
  if (op == 0) {
    dst = src;  // copy assignment from a different Optional type
    vt_check(dst.empty() == !hs && src.empty() == !hs, "converting copy assignment copies the state");
    if (hs) vt_check(dst.get() == static_cast<long>(vs), "converting copy assignment converts the value");
  } else if (op == 1) {
    dst = std::move(src);  // move assignment from a different Optional type
    vt_check(dst.empty() == !hs, "converting move assignment transfers the state");
    if (hs) vt_check(dst.get() == static_cast<long>(vs), "converting move assignment converts the value");
    vt_check(src.empty(), "converting move assignment leaves the source empty");
  } else if (op == 2) {
    nop::Optional<long> in_place(nop::InPlace{}, static_cast<long>(vs));
    vt_check(!in_place.empty() && in_place.get() == static_cast<long>(vs), "in-place construction holds the value");
    nop::Optional<long> conv(vs);  // from a type U that T can be constructed from
    vt_check(!conv.empty() && conv.get() == static_cast<long>(vs), "construction from a convertible value holds the converted value");
  }
  vt_cover(op == 1 && hs && hd, "converting move over a non-empty Optional reached");
}

// converting assignments into an Optional of a TRACKED type (Optional<int> -> Optional<Tracked<0>>): the element that the
// destination held is assigned or destroyed, never overwritten
inline void optional_convert_tracked_ops() {
  ghost_reset();
  {
    nop::Optional<int> src;
    const bool hs = nondet<bool>();
    const int vs = nondet<int>();
    if (hs) src = vs;
    nop::Optional<T0> dst;
    const bool hd = nondet<bool>();
    if (hd) dst = T0(nondet<int>());
    vt_check(g_live == (hd ? 1 : 0), "operand state of the converting assignment");
    const bool move = nondet<bool>();
    if (move) dst = std::move(src);
    else dst = src;
    vt_check(dst.empty() == !hs, "converting assignment transfers the state");
    if (hs) vt_check(dst.get().value == vs && dst.get().alive == kAlive, "converting assignment converts the value into a live element");
    vt_check(g_live == (hs ? 1 : 0), "after a converting assignment: exactly one live element iff the destination holds a value");
    vt_cover(hs && hd && !move, "converting copy over a non-empty Optional reached");
    vt_cover(hs && hd && move, "converting move over a non-empty Optional reached");
  }
  vt_check(g_live == 0 && g_ctor == g_dtor && g_bad == 0, "every constructed element destroyed exactly once");
}

// ------------------------------------------------------------------------------- Entry
inline void entry_ops() {
  ghost_reset();
  {
    nop::Entry<T0, 5> e, f;
    nop::Entry<T0, 6, nop::DeletedEntry> d;
    vt_check(e.empty() && d.empty() && !static_cast<bool>(d), "fresh entries are empty; a deleted entry is always empty");
    const bool he = nondet<bool>();
    const int ve = nondet<int>();
    if (he) e = T0(ve);
    vt_check(e.empty() == !he, "entry holds a value after assignment");
    const std::uint8_t op = nondet<std::uint8_t>();
    bool hf = false;
    if (op == 0) { f = e; hf = he; vt_check(f.empty() == !he && e.empty() == !he, "entry copy assignment"); }
    else if (op == 1) { f = std::move(e); hf = he; vt_check(f.empty() == !he && e.empty(), "entry move assignment empties the source"); }
    else if (op == 2) { e.clear(); vt_check(e.empty(), "entry clear"); }
    else if (op == 3) { d.clear(); vt_check(d.empty(), "deleted entry clear"); }
    if (hf) vt_check(f.get() == T0(ve), "entry value carried");
    vt_check(g_live == (e.empty() ? 0 : 1) + (f.empty() ? 0 : 1), "live elements == non-empty entries");
    vt_cover(op == 1 && he, "entry move of a value reached");
  }
  vt_check(g_live == 0 && g_ctor == g_dtor && g_bad == 0, "entry elements constructed and destroyed in matched pairs");
}

// ------------------------------------------------------------------------------ Result
enum class Err : int { None = 0, A = 1, B = 7 };
using R0 = nop::Result<Err, T0>;

inline void make_result(R0* r, int* st, int* val, Err* err) {
  *st = nondet<std::uint8_t>() % 3;  // 0 empty, 1 error, 2 value
  *val = nondet<int>();
  *err = nondet<bool>() ? Err::A : Err::B;
  if (*st == 1) *r = *err;
  else if (*st == 2) *r = T0(*val);
  else if (nondet<bool>()) {
    // the empty state reached the long way: held a value (or an error) first, then emptied
    if (nondet<bool>()) *r = T0(*val); else *r = *err;
    if (nondet<bool>()) r->clear(); else { R0 sink(std::move(*r)); (void)sink; }
  }
}
inline void check_result(const R0& r, int st, int val, Err err, const char*) {
  vt_check(r.has_value() == (st == 2), "has_value reports the state");
  vt_check(r.has_error() == (st == 1), "has_error reports the state");
  vt_check(static_cast<bool>(r) == (st == 2), "bool reports the state");
  vt_check(r.error() == (st == 1 ? err : Err::None), "error() is the held error, None otherwise");
  if (st == 2) vt_check(r.get() == T0(val), "get() is the held value");
}

inline void result_ops() {
  ghost_reset();
  {
    R0 a, b;
    vt_check(!a.has_value() && !a.has_error() && a.error() == Err::None, "default-constructed Result holds nothing");
    int sa, sb, va, vb;
    Err ea, eb;
    make_result(&a, &sa, &va, &ea);
    make_result(&b, &sb, &vb, &eb);
    check_result(a, sa, va, ea, "a");
    check_result(b, sb, vb, eb, "b");
    vt_check(g_live == (sa == 2) + (sb == 2), "live elements == Results holding a value");
    const int x = nondet<int>();
    const std::uint8_t op = nondet<std::uint8_t>();
    if (op == 0) {
      a = b;
      sa = sb; va = vb; ea = eb;
    } else if (op == 1) {
      a = std::move(b);
      sa = sb; va = vb; ea = eb;
      sb = 0;  // moving from a Result by assignment leaves it holding nothing
    } else if (op == 2) {
      a = a;
    } else if (op == 3) {
      T0 t(x);
      a = t;
      sa = 2; va = x;
    } else if (op == 4) {
      a = T0(x);
      sa = 2; va = x;
    } else if (op == 5) {
      a = Err::B;
      sa = 1; ea = Err::B;
    } else if (op == 6) {
      a = Err::None;  // assigning None yields the empty state, never "an error equal to None"
      sa = 0;
    } else if (op == 7) {
      a.clear();
      sa = 0;
    } else if (op == 8) {
      R0 c(b);
      check_result(c, sb, vb, eb, "copy-constructed");
      vt_check(g_live == (sa == 2) + 2 * (sb == 2), "copy construction constructs one more element when holding a value");
    } else if (op == 9) {
      R0 c(std::move(b));
      check_result(c, sb, vb, eb, "move-constructed");
      sb = 0;
    } else if (op == 10) {
      R0 c{T0(x)}, d{Err::A}, e{Err::None};
      vt_check(c.has_value() && c.get() == T0(x) && d.has_error() && d.error() == Err::A && !e.has_error() && !e.has_value(), "value / error / None constructors");
    } else if (op == 11) {
      if (sa == 2) {
        T0 t(a.take());
        vt_check(t == T0(va), "take yields the held value");
      }
    }
    check_result(a, sa, va, ea, "a after");
    check_result(b, sb, vb, eb, "b after");
    vt_check(g_live == (sa == 2) + (sb == 2), "after the operation: live elements == Results holding a value");
    vt_cover(op == 4 && sa == 2, "value assigned reached");
    vt_cover(op == 1 && sb == 0, "move assignment reached");
  }
  vt_check(g_live == 0 && g_ctor == g_dtor, "every constructed element destroyed exactly once");
  vt_check(g_bad == 0, "no element used, assigned or destroyed while not alive");
}

// ------------------------------------------------------------------- Status<void> / messages
inline void status_ops() {
  nop::Status<void> s;
  vt_check(static_cast<bool>(s) && !s.has_error() && s.error() == nop::ErrorStatus::None, "default Status<void> is success");
  const int c = nondet<int>();
  const nop::ErrorStatus e = static_cast<nop::ErrorStatus>(c);
  nop::Status<void> t(e);
  vt_check(t.has_error() == (c != 0) && t.error() == e && static_cast<bool>(t) == (c == 0), "Status<void>(e) reports e");
  nop::Status<void> u(t);
  vt_check(u.error() == e, "copy keeps the error");
  nop::Status<void> m(std::move(t));
  vt_check(m.error() == e && !t.has_error(), "move construction clears the source");
  s = u;
  vt_check(s.error() == e && u.error() == e, "copy assignment");
  nop::Status<void> w;
  w = std::move(u);
  vt_check(w.error() == e && !u.has_error(), "move assignment clears the source");
  w.clear();
  vt_check(!w.has_error(), "clear");
  const char* msg = m.GetErrorMessage();
  vt_check(msg != nullptr, "GetErrorMessage is defined for every value");
  if (c >= 0 && c <= 18)
    vt_check(!(msg[0] == 'U' && msg[1] == 'n' && msg[2] == 'k' && msg[3] == 'n'), "every declared ErrorStatus has its own message, not the default");
  vt_cover(c == 18, "DebugError reached");
  vt_cover(c > 18, "undeclared code reached");
}

}  // namespace vt

VT_HARNESS(h_optional_tracked) { vt::optional_ops<nop::Optional<vt::T0>, vt::T0>(); }
VT_HARNESS(h_optional_int) { vt::optional_ops<nop::Optional<int>, int>(); }
VT_HARNESS(h_optional_convert) { vt::optional_convert_ops(); }
VT_HARNESS(h_optional_convert_tracked) { vt::optional_convert_tracked_ops(); }
VT_HARNESS(h_optional_relational) { vt::relational_ops(); }
VT_HARNESS(h_entry) { vt::entry_ops(); }
VT_HARNESS(h_result) { vt::result_ops(); }
VT_HARNESS(h_status) { vt::status_ops(); }
