#!/usr/bin/env python3
# Generates units/rw.spec: the ONE byte-source / byte-sink contract, instantiated for every
# shipped buffer reader and writer and every element width (C17).  Readers: success exactly when
# n <= remaining, the bytes delivered are the source bytes in order, the position advances by n;
# otherwise ReadLimitReached and nothing changes.  Writers: the bytes appended are the object
# representation of the elements (little-endian host), checked writers refuse exactly when
# n > capacity - position; BufferWriter is documented as unchecked and is held to the contract
# under the precondition that Prepare established (n <= capacity - position).
T = {"u8": ("unsigned char", 1), "u16": ("unsigned short", 2), "u32": ("unsigned int", 4), "u64": ("unsigned long", 8),
     "f32": ("float", 4), "i32": ("int", 4)}
out = []
P = out.append
P("c #define VT_MAXLEN (1UL << 40)")
P("c unsigned long vt_n;")
P("c #define RB_PRE(r) (FRESH(r) && (r)->size_ <= VT_MAXLEN && (r)->index_ <= (r)->size_ && FRESHN((r)->buffer_, (r)->size_))")
P("c #define REM(r) ((r)->size_ - OLD((r)->index_))")

def reader(cls, tag):
    P("")
    P("contract nop::%s::Ensure(unsigned long)" % cls)
    P("  requires RB_PRE(this)")
    P("  assigns")
    P("  ensures size <= this->size_ - this->index_ ==> ERR(RET) == 0")
    P("  ensures size > this->size_ - this->index_ ==> ERR(RET) == E_ReadLimitReached")
    P("job c17_%s_ensure\n  props C17 C02 C05\n  enforce nop::%s::Ensure(unsigned long)\n" % (tag, cls))
    P("contract nop::%s::Read(unsigned char *)" % cls)
    P("  requires RB_PRE(this) && FRESH(byte)")
    P("  assigns *byte, this->index_")
    P("  ensures this->index_ <= this->size_")
    P("  ensures OLD(this->index_) < this->size_ ==> (ERR(RET) == 0 && this->index_ == OLD(this->index_) + 1 && *byte == this->buffer_[OLD(this->index_)])")
    P("  ensures OLD(this->index_) >= this->size_ ==> (ERR(RET) == E_ReadLimitReached && this->index_ == OLD(this->index_))")
    P("job c17_%s_read1\n  props C17 C02 C05\n  enforce nop::%s::Read(unsigned char *)\n" % (tag, cls))
    for t in ("u8", "u16", "u32", "u64", "f32"):
        ct, sz = T[t]
        key = "nop::%s::Read<%s, void>(%s *, %s *)" % (cls, ct, ct, ct)
        P("contract " + key)
        P("  requires RB_PRE(this) && vt_n <= %d && FRESHN(begin, vt_n * %d) && end == begin + vt_n" % (64 // sz, sz))
        P("  assigns __CPROVER_object_upto(begin, vt_n * %d), this->index_" % sz)
        P("  ensures this->index_ <= this->size_")
        P("  ensures vt_n * %d <= REM(this) ==> (ERR(RET) == 0 && this->index_ == OLD(this->index_) + vt_n * %d)" % (sz, sz))
        P("  ensures (vt_n * %d <= REM(this) && vt_k < vt_n * %d) ==> ((unsigned char*)begin)[vt_k] == this->buffer_[OLD(this->index_) + vt_k]" % (sz, sz))
        P("  ensures vt_n * %d > REM(this) ==> (ERR(RET) == E_ReadLimitReached && this->index_ == OLD(this->index_))" % sz)
        P("job c17_%s_read_%s\n  props C17 C02 C05\n  pre vt_n = nondet_ulong(); vt_k = nondet_ulong();\n  enforce %s\n" % (tag, t, key))
    P("contract nop::%s::Skip(unsigned long)" % cls)
    P("  requires RB_PRE(this)")
    P("  assigns this->index_")
    P("  ensures this->index_ <= this->size_")
    P("  ensures padding_bytes <= REM(this) ==> (ERR(RET) == 0 && this->index_ == OLD(this->index_) + padding_bytes)")
    P("  ensures padding_bytes > REM(this) ==> (ERR(RET) == E_ReadLimitReached && this->index_ == OLD(this->index_))")
    P("job c17_%s_skip\n  props C17 C02 C05\n  enforce nop::%s::Skip(unsigned long)\n" % (tag, cls))

reader("BufferReader", "br")
reader("PedanticBufferReader", "pr")

def writer(cls, tag, checked, types):
    cap = "" if checked else " && %s <= this->size_ - this->index_"
    P("")
    P("contract nop::%s::Prepare(unsigned long)" % cls)
    P("  requires RB_PRE(this)")
    P("  assigns")
    P("  ensures size <= this->size_ - this->index_ ==> ERR(RET) == 0")
    P("  ensures size > this->size_ - this->index_ ==> ERR(RET) == E_WriteLimitReached")
    P("job c17_%s_prepare\n  props C17 C06\n  enforce nop::%s::Prepare(unsigned long)\n" % (tag, cls))
    P("contract nop::%s::Write(unsigned char)" % cls)
    P("  requires RB_PRE(this)" + (cap % "1" if not checked else ""))
    P("  assigns this->index_ < this->size_: this->buffer_[this->index_]")
    P("  assigns this->index_")
    P("  ensures this->index_ <= this->size_")
    P("  ensures OLD(this->index_) < this->size_ ==> (ERR(RET) == 0 && this->index_ == OLD(this->index_) + 1 && this->buffer_[OLD(this->index_)] == byte)")
    P("  ensures OLD(this->index_) >= this->size_ ==> (ERR(RET) == E_WriteLimitReached && this->index_ == OLD(this->index_))")
    P("job c17_%s_write1\n  props C17 C06\n  pre vt_k = nondet_ulong();\n  enforce nop::%s::Write(unsigned char)\n" % (tag, cls))
    for t in types:
        ct, sz = T[t]
        key = "nop::%s::Write<%s, void>(const %s *, const %s *)" % (cls, ct, ct, ct)
        P("contract " + key)
        P("  requires RB_PRE(this) && vt_n <= %d && FRESHN(begin, vt_n * %d) && end == begin + vt_n" % (64 // sz, sz) + ((cap % ("vt_n * %d" % sz)) if not checked else ""))
        P("  assigns vt_n * %d <= this->size_ - this->index_: __CPROVER_object_upto(this->buffer_ + this->index_, vt_n * %d)" % (sz, sz))
        P("  assigns this->index_")
        P("  ensures this->index_ <= this->size_")
        P("  ensures vt_n * %d <= REM(this) ==> (ERR(RET) == 0 && this->index_ == OLD(this->index_) + vt_n * %d)" % (sz, sz))
        P("  ensures (vt_n * %d <= REM(this) && vt_k < vt_n * %d) ==> this->buffer_[OLD(this->index_) + vt_k] == ((const unsigned char*)begin)[vt_k]" % (sz, sz))
        P("  ensures vt_n * %d > REM(this) ==> (ERR(RET) == E_WriteLimitReached && this->index_ == OLD(this->index_))" % sz)
        loops = "\n  loops" if tag == "cw" else ""
        P("job c17_%s_write_%s\n  props C17 C06\n  pre vt_n = nondet_ulong(); vt_k = nondet_ulong();\n  enforce %s%s\n" % (tag, t, key, loops))
        if tag == "cw":
            P("loop %s #0" % key)
            P("  assigns i, __CPROVER_object_upto(this->buffer_ + this->index_, length_bytes)")
            P("  invariant i <= length")
            P("  invariant vt_k < i * %d ==> this->buffer_[this->index_ + vt_k] == ((const unsigned char*)begin)[vt_k]" % sz)
            P("  decreases length - i")
            P("")
    P("contract nop::%s::Skip(unsigned long, unsigned char)" % cls)
    P("  requires RB_PRE(this)" + (cap % "padding_bytes" if not checked else "") + (" && vt_g_i0 == this->index_ && vt_g_p0 == padding_bytes" if tag == "cw" else ""))
    P("  assigns padding_bytes <= this->size_ - this->index_: __CPROVER_object_upto(this->buffer_ + this->index_, padding_bytes)")
    P("  assigns this->index_")
    P("  ensures this->index_ <= this->size_")
    P("  ensures padding_bytes <= REM(this) ==> (ERR(RET) == 0 && this->index_ == OLD(this->index_) + padding_bytes)")
    P("  ensures (padding_bytes <= REM(this) && vt_k < padding_bytes) ==> this->buffer_[OLD(this->index_) + vt_k] == padding_value")
    P("  ensures padding_bytes > REM(this) ==> (ERR(RET) == E_WriteLimitReached && this->index_ == OLD(this->index_))")
    if tag == "pw":
        P("job c17_%s_skip\n  props C17 C06\n  pre vt_k = nondet_ulong();\n  enforce nop::%s::Skip(unsigned long, unsigned char)\n  replace nop::%s::Prepare(unsigned long)\n" % (tag, cls, cls))
    elif tag == "cw":
        P("job c17_%s_skip\n  props C17 C06\n  pre vt_k = nondet_ulong(); vt_g_i0 = nondet_ulong(); vt_g_p0 = nondet_ulong();\n  enforce nop::%s::Skip(unsigned long, unsigned char)\n  replace nop::%s::Prepare(unsigned long)\n  loops\n" % (tag, cls, cls))
        P("loop nop::%s::Skip(unsigned long, unsigned char) #0" % cls)
        P("  assigns padding_bytes, this->index_, __CPROVER_object_upto(this->buffer_ + vt_g_i0, vt_g_p0)")
        P("  invariant this->index_ <= this->size_ && padding_bytes <= this->size_ - this->index_")
        P("  invariant this->index_ + padding_bytes == vt_g_i0 + vt_g_p0 && this->index_ >= vt_g_i0")
        P("  invariant vt_k < this->index_ - vt_g_i0 ==> this->buffer_[vt_g_i0 + vt_k] == padding_value")
        P("  decreases padding_bytes")
        P("")
    else:
        P("job c17_%s_skip\n  props C17 C06\n  pre vt_k = nondet_ulong();\n  enforce nop::%s::Skip(unsigned long, unsigned char)\n" % (tag, cls))

P("c unsigned long vt_g_i0, vt_g_p0;")
writer("BufferWriter", "bw", False, ("u8", "u16", "u32", "u64", "f32"))
writer("PedanticBufferWriter", "pw", True, ("u8", "u16", "u32", "u64", "f32"))
writer("ConstexprBufferWriter", "cw", True, ("u8", "u16", "u32", "u64", "i32"))
print("\n".join(out))
