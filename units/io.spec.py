#!/usr/bin/env python3
# jobs for units/io.cpp — stream and fd readers/writers over the ASSUMED iostream / POSIX models.
out = []
# jobs that did not finish within the 14 GB / 3000 s limits on this image (measured in the thorough tier): they decided
# nothing and are not registered; the same round trip is decided for the smaller types and the other pairings below
DROPPED = {"rt_s1_fd": "out of memory", "rt_s1_stream_fd": "out of memory", "rt_tr_stream": "out of memory"}
def job(name, props, unwind, kind="complete", note="constant trip counts", tier="quick", extra=""):
    if name in DROPPED:
        return
    out.append("job io_%s\n  props %s\n  harness h_%s\n  unwind %d %s %s\n%s  tier %s\n  timeout 3000\n" % (name, props, name, unwind, kind, note, extra, tier))
# conformance: three symbolic primitive calls in lock step with the reference source/sink (bounded history)
for n in ("conf_stream_reader", "conf_stream_writer"):
    job(n, "C17 C05", 10, "bounded", "call sequences of length 3 over <= 6 source bytes")
for n in ("conf_fd_reader", "conf_fd_writer"):
    job(n, "C17 C05", 10, "bounded", "call sequences of length 3 over <= 6 source bytes; one EINTR at a symbolic call; short reads", tier="thorough")
job("fd_ownership", "C17", 4)
job("file_handle", "C15 C17", 4)
job("fd_block_read", "C17 C05", 10, "bounded", "one 4-byte block over a source of <= 6 bytes, short transfers of 1..4 bytes, one EINTR", extra="  unwindset nop::FdReader::Read(void *, void *) 10\n")
for t in ("u32", "f64", "s1", "tr"):
    job("rt_%s_stream" % t, "C01", 26, tier=("quick" if t in ("u32", "f64") else "thorough"), extra="  unwindset ReadEntries 4\n  unwindset ::dec( 4\n  unwindset nop::FdReader::Read(unsigned char *) 3\n  unwindset nop::FdReader::Read(void *, void *) 10\n  unwindset nop::FdWriter::Write(unsigned char) 3\n  unwindset nop::FdWriter::Write(const void *, const void *) 10\n  unwindset nop::StreamWriter< 12\n")
for t in ("u32", "f64", "s1"):
    job("rt_%s_fd" % t, "C01", 26, tier="thorough", extra="  unwindset nop::FdReader::Read(unsigned char *) 3\n  unwindset nop::FdReader::Read(void *, void *) 10\n  unwindset nop::FdWriter::Write(unsigned char) 3\n  unwindset nop::FdWriter::Write(const void *, const void *) 10\n")
job("rt_s1_ped_stream", "C01", 26, tier="thorough")
job("rt_s1_stream_fd", "C01", 26, tier="thorough", extra="  unwindset nop::FdReader::Read(unsigned char *) 3\n  unwindset nop::FdReader::Read(void *, void *) 10\n")
for t, n in (("u32", 7), ("f64", 11), ("s1", 18), ("tr", 10)):
    job("trunc_%s_stream" % t, "C05", n + 2, tier=("thorough" if t == "tr" else "quick"), extra="  unwindset ReadEntries 5\n  unwindset ::dec( 5\n")
for t, n in (("u32", 7), ("f64", 11), ("s1", 18)):
    job("trunc_%s_fd" % t, "C05", n + 2, tier=("quick" if t == "u32" else "thorough"), extra="  unwindset nop::FdReader::Read(unsigned char *) 3\n  unwindset nop::FdReader::Read(void *, void *) 10\n")
# ---------------------------------------------------------------------------------------------------------
# Per-method contracts of StreamReader / StreamWriter over the (assumed) iostream model and of the byte primitives of
# FdReader / FdWriter over the (assumed) POSIX model: a call succeeds exactly when the reference source / sink would
# (stream good, no injected fault, enough data / room), a successful call delivers / appends exactly the next bytes and
# advances the position by exactly that much, a failing call returns the documented code.  Enforced per function for
# ALL stream states and positions, so conformance for every finite call sequence follows by induction (the bounded
# lock-step lemmas above are only a cross-check).
out.append("c #define VT_MAXLEN (1UL << 40)")
out.append("c unsigned long vt_n;")
out.append("c #define IS (this->stream_)")
out.append("c #define IS_PRE (FRESH(this) && IS.len <= VT_MAXLEN && IS.pos <= IS.len && FRESHN(IS.src, IS.len) && IS.calls < (1UL << 62))")
out.append("c #define IS_GOOD0 (!OLD(IS.eofbit) && !OLD(IS.failbit) && !OLD(IS.badbit) && OLD(IS.calls) != OLD(IS.bad_at))")
out.append("c #define OS_PRE (FRESH(this) && IS.cap <= VT_MAXLEN && IS.pos <= IS.cap && FRESHN(IS.dst, IS.cap) && IS.calls < (1UL << 62))")
out.append("c #define OS_GOOD0 (!OLD(IS.badbit) && OLD(IS.calls) != OLD(IS.bad_at))")
def contract(key, clauses, name, props, extra=""):
    out.append("contract %s\n%s" % (key, "".join("  %s\n" % c for c in clauses)))
    out.append("job io_fn_%s\n  props %s\n  enforce %s\n%s  timeout 900\n" % (name, props, key, extra))
SR = "nop::StreamReader<vt::SpecIStream>::"
contract(SR + "Read(unsigned char *)", [
    "requires IS_PRE && FRESH(byte)",
    "assigns *byte, IS.pos, IS.eofbit, IS.failbit, IS.badbit, IS.calls",
    "ensures (IS_GOOD0 && OLD(IS.pos) < IS.len) ==> (ERR(RET) == 0 && IS.pos == OLD(IS.pos) + 1 && *byte == IS.src[OLD(IS.pos)])",
    "ensures !(IS_GOOD0 && OLD(IS.pos) < IS.len) ==> ERR(RET) == E_StreamError",
    "ensures IS.pos <= IS.len"], "stream_read1", "C17 C05", "  unwind 3 complete one-character transfer\n")
contract(SR + "Read(void *, void *)", [
    "requires IS_PRE && vt_n <= 16 && FRESHN(begin, vt_n) && end == (char*)begin + vt_n",
    "assigns __CPROVER_object_upto(begin, vt_n), IS.pos, IS.eofbit, IS.failbit, IS.badbit, IS.calls",
    "ensures (IS_GOOD0 && vt_n <= IS.len - OLD(IS.pos)) ==> (ERR(RET) == 0 && IS.pos == OLD(IS.pos) + vt_n)",
    "ensures (IS_GOOD0 && vt_n <= IS.len - OLD(IS.pos) && vt_k < vt_n) ==> ((unsigned char*)begin)[vt_k] == IS.src[OLD(IS.pos) + vt_k]",
    "ensures !(IS_GOOD0 && vt_n <= IS.len - OLD(IS.pos)) ==> ERR(RET) == E_StreamError",
    "ensures IS.pos <= IS.len"], "stream_read", "C17 C05", "  pre vt_n = nondet_ulong(); vt_k = nondet_ulong();\n  unwind 18 complete block length <= 16 (precondition)\n")
contract(SR + "Skip(unsigned long)", [
    "requires IS_PRE",
    "assigns IS.pos, IS.eofbit, IS.failbit, IS.badbit, IS.calls",
    "ensures (IS_GOOD0 && padding_bytes <= IS.len - OLD(IS.pos)) ==> (ERR(RET) == 0 && IS.pos == OLD(IS.pos) + padding_bytes)",
    "ensures !(IS_GOOD0 && padding_bytes <= IS.len - OLD(IS.pos)) ==> ERR(RET) == E_StreamError",
    "ensures IS.pos <= IS.len"], "stream_skip", "C17 C05")
SW = "nop::StreamWriter<vt::SpecOStream>::"
contract(SW + "Write(unsigned char)", [
    "requires OS_PRE",
    "assigns __CPROVER_object_whole(IS.dst), IS.pos, IS.badbit, IS.calls",
    "ensures (OS_GOOD0 && OLD(IS.pos) < IS.cap) ==> (ERR(RET) == 0 && IS.pos == OLD(IS.pos) + 1 && IS.dst[OLD(IS.pos)] == byte)",
    "ensures !(OS_GOOD0 && OLD(IS.pos) < IS.cap) ==> ERR(RET) == E_StreamError"], "stream_write1", "C17")
contract(SW + "Write(const void *, const void *)", [
    "requires OS_PRE && vt_n <= 16 && FRESHN(begin, vt_n) && end == (const char*)begin + vt_n",
    "assigns __CPROVER_object_whole(IS.dst), IS.pos, IS.badbit, IS.calls",
    "ensures (OS_GOOD0 && vt_n <= IS.cap - OLD(IS.pos)) ==> (ERR(RET) == 0 && IS.pos == OLD(IS.pos) + vt_n)",
    "ensures (OS_GOOD0 && vt_n <= IS.cap - OLD(IS.pos) && vt_k < vt_n) ==> IS.dst[OLD(IS.pos) + vt_k] == ((const unsigned char*)begin)[vt_k]",
    "ensures !(OS_GOOD0 && vt_n <= IS.cap - OLD(IS.pos)) ==> ERR(RET) == E_StreamError"], "stream_write", "C17", "  pre vt_n = nondet_ulong(); vt_k = nondet_ulong();\n  unwind 18 complete block length <= 16 (precondition)\n")
# FdReader / FdWriter byte primitives over the POSIX model (one EINTR at a symbolic call index is transparent)
out.append("c #define FD_EFF (OLD(vt_fd.calls) + (OLD(vt_fd.intr_at) == OLD(vt_fd.calls) ? 1UL : 0UL))")
contract("nop::FdReader::Read(unsigned char *)", [
    "requires FRESH(this) && this->fd_ == VT_FD_SRC && FRESH(byte) && vt_fd.len <= VT_MAXLEN && vt_fd.pos <= vt_fd.len && FRESHN(vt_fd.src, vt_fd.len) && vt_fd.calls < (1UL << 62)",
    "assigns *byte, vt_fd.pos, vt_fd.calls, vt_errno_cell",
    "ensures (OLD(vt_fd.fail_at) != FD_EFF && OLD(vt_fd.pos) < vt_fd.len) ==> (ERR(RET) == 0 && vt_fd.pos == OLD(vt_fd.pos) + 1 && *byte == vt_fd.src[OLD(vt_fd.pos)])",
    "ensures (OLD(vt_fd.fail_at) != FD_EFF && OLD(vt_fd.pos) >= vt_fd.len) ==> (ERR(RET) == E_ReadLimitReached && vt_fd.pos == OLD(vt_fd.pos))",
    "ensures OLD(vt_fd.fail_at) == FD_EFF ==> (ERR(RET) == E_IOError && vt_fd.pos == OLD(vt_fd.pos))"], "fd_read1", "C17 C05", "  unwind 4 complete the model interrupts at most one call\n")
contract("nop::FdWriter::Write(unsigned char)", [
    "requires FRESH(this) && this->fd_ == VT_FD_DST && vt_fd.cap <= VT_MAXLEN && vt_fd.wpos <= vt_fd.cap && FRESHN(vt_fd.dst, vt_fd.cap) && vt_fd.calls < (1UL << 62)",
    "assigns __CPROVER_object_whole(vt_fd.dst), vt_fd.wpos, vt_fd.calls, vt_errno_cell",
    "ensures (OLD(vt_fd.fail_at) != FD_EFF && OLD(vt_fd.wpos) < vt_fd.cap) ==> (ERR(RET) == 0 && vt_fd.wpos == OLD(vt_fd.wpos) + 1 && vt_fd.dst[OLD(vt_fd.wpos)] == byte)",
    "ensures (OLD(vt_fd.fail_at) != FD_EFF && OLD(vt_fd.wpos) >= vt_fd.cap) ==> ERR(RET) == E_WriteLimitReached",
    "ensures OLD(vt_fd.fail_at) == FD_EFF ==> ERR(RET) == E_IOError"], "fd_write1", "C17", "  unwind 4 complete the model interrupts at most one call\n")
# (A modular contract for FdReader::Read(begin, end) — byte primitive replaced by its contract plus a loop contract on the
# byte loop — exhausted memory in the SAT back end even with a 48-byte source; the block transfers stay covered by the
# lock-step conformance lemma and the codec round-trip / truncation jobs.)
print("\n".join(out))
