#!/usr/bin/env python3
# jobs for units/io.cpp — stream and fd readers/writers over the ASSUMED iostream / POSIX models.
out = []
def job(name, props, unwind, kind="complete", note="constant trip counts", tier="quick", extra=""):
    out.append("job io_%s\n  props %s\n  harness h_%s\n  unwind %d %s %s\n%s  tier %s\n  timeout 3000\n" % (name, props, name, unwind, kind, note, extra, tier))
# conformance: three symbolic primitive calls in lock step with the reference source/sink (bounded history)
for n in ("conf_stream_reader", "conf_stream_writer"):
    job(n, "C17 C05", 10, "bounded", "call sequences of length 3 over <= 6 source bytes")
for n in ("conf_fd_reader", "conf_fd_writer"):
    job(n, "C17 C05", 10, "bounded", "call sequences of length 3 over <= 6 source bytes; one EINTR at a symbolic call; short reads", tier="thorough")
job("fd_ownership", "C17", 4)
for t in ("u32", "f64", "s1", "tr"):
    job("rt_%s_stream" % t, "C01", 26, tier=("quick" if t in ("u32", "f64") else "thorough"), extra="  unwindset ReadEntries 4\n  unwindset ::dec( 4\n  unwindset nop::FdReader::Read(unsigned char *) 3\n  unwindset nop::FdReader::Read(void *, void *) 10\n  unwindset nop::FdWriter::Write(unsigned char) 3\n  unwindset nop::FdWriter::Write(const void *, const void *) 10\n  unwindset nop::StreamWriter< 12\n")
for t in ("u32", "f64", "s1"):
    job("rt_%s_fd" % t, "C01", 26, tier="thorough", extra="  unwindset nop::FdReader::Read(unsigned char *) 3\n  unwindset nop::FdReader::Read(void *, void *) 10\n  unwindset nop::FdWriter::Write(unsigned char) 3\n  unwindset nop::FdWriter::Write(const void *, const void *) 10\n")
job("rt_s1_ped_stream", "C01", 26, tier="thorough")
job("rt_s1_stream_fd", "C01", 26, tier="thorough", extra="  unwindset nop::FdReader::Read(unsigned char *) 3\n  unwindset nop::FdReader::Read(void *, void *) 10\n")
for t, n in (("u32", 7), ("f64", 11), ("s1", 18), ("tr", 10)):
    job("trunc_%s_stream" % t, "C05", n + 2, tier=("thorough" if t == "tr" else "quick"), extra="  unwindset ReadEntries 5\n  unwindset ::dec( 5\n")
for t, n in (("u32", 7), ("f64", 11), ("s1", 18)):
    job("trunc_%s_fd" % t, "C05", n + 2, tier=("quick" if t == "u32" else "thorough"), extra="  unwindset nop::FdReader::Read(unsigned char *) 3\n  unwindset nop::FdReader::Read(void *, void *) 10\n")
print("\n".join(out))
