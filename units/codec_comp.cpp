// Fixed-shape composite codecs: arrays (BIN / ARY), pair, tuple, annotated structures with
// logical buffers, value wrappers, Optional, Result, Variant.  Same lemmas as the scalars.
#include <array>
#include <limits>
#include <tuple>
#include <nop/base/array.h>
#include <nop/base/encoding.h>
#include <nop/base/enum.h>
#include <nop/base/logical_buffer.h>
#include <nop/base/members.h>
#include <nop/base/optional.h>
#include <nop/base/pair.h>
#include <nop/base/result.h>
#include <nop/base/serializer.h>
#include <nop/base/tuple.h>
#include <nop/base/value.h>
#include <nop/base/variant.h>
#include <nop/structure.h>
#include <nop/value.h>

#include "lemmas.h"

namespace vt {
using BndR = nop::BoundedReader<nop::PedanticBufferReader>;
using BndW = nop::BoundedWriter<nop::PedanticBufferWriter>;

using ArrU16 = std::array<std::uint16_t, 3>;
using ArrF32 = std::array<float, 2>;
using PairT = std::pair<std::uint8_t, std::int64_t>;
using TupleT = std::tuple<std::uint8_t, bool, std::int32_t>;
enum class Err : std::int32_t { None = 0, Small = 5, Big = 70000 };
using OptI32 = nop::Optional<std::int32_t>;
using ResU16 = nop::Result<Err, std::uint16_t>;
using VarT = nop::Variant<std::int32_t, bool>;

// structure with an integral logical buffer whose size member is one byte wide
struct S1 {
  std::uint32_t a;
  std::int16_t b;
  std::uint8_t data[4];
  std::uint8_t n;
  NOP_STRUCTURE(S1, a, b, (data, n));
};
// nested structures, a C array member and a non-integral logical buffer with a 32-bit size member
struct P1 {
  std::uint8_t x;
  bool y;
  NOP_STRUCTURE(P1, x, y);
};
struct S2 {
  std::int8_t k[2];
  P1 items[2];
  std::uint32_t m;
  NOP_STRUCTURE(S2, k, (items, m));
};
// composites of composites: a structure inside Optional / Variant / std::array
using OptP1 = nop::Optional<P1>;
using VarP1 = nop::Variant<P1, std::uint8_t>;
using ArrP1 = std::array<P1, 2>;
// integral logical buffer with a signed size member
struct S3 {
  std::uint16_t w[3];
  int n;
  NOP_STRUCTURE(S3, (w, n));
};
// non-integral logical buffer with one-byte elements and a one-byte size member: a hostile count that only fits a
// wider class reaches the element loop within a few input bytes
using OptB = nop::Optional<bool>;
struct S4 {
  OptB e[2];
  std::uint8_t n;
  NOP_STRUCTURE(S4, (e, n));
};
struct V1 {
  std::uint16_t v;
  NOP_VALUE(V1, v);
};

// ---- schema of the annotated types, from docs/format.md "Structure" / "Binary Container" / "Array Container"
template <>
struct Fmt<S1> {
  static void enc(fmt::Out& o, const S1& v) {
    fmt::enc_header(o, FMT_STU, 3);
    Fmt<std::uint32_t>::enc(o, v.a);
    Fmt<std::int16_t>::enc(o, v.b);
    fmt::enc_header(o, FMT_BIN, v.n);
    for (std::size_t i = 0; i < 4; i++)
      if (i < v.n) fmt::put(o, v.data[i]);
  }
  static bool dec(fmt::In& in, S1* v) {
    if (!fmt::dec_header_fixed(in, FMT_STU, 3, nop::ErrorStatus::InvalidMemberCount)) return false;
    if (!Fmt<std::uint32_t>::dec(in, &v->a) || !Fmt<std::int16_t>::dec(in, &v->b)) return false;
    if (!fmt::expect_prefix(in, FMT_BIN)) return false;
    std::uint64_t len;
    if (!fmt::dec_uint(in, 8, &len)) return false;
    if (len > 4) return fmt::fail(in, nop::ErrorStatus::InvalidContainerLength);
    for (std::size_t i = 0; i < 4; i++)
      if (i < len && !fmt::get_raw(in, &v->data[i])) return false;
    v->n = static_cast<std::uint8_t>(len);
    return true;
  }
};
template <>
struct Gen<S1> {
  static void make(S1* v) {
    v->a = nondet<std::uint32_t>();
    v->b = nondet<std::int16_t>();
    for (int i = 0; i < 4; i++) v->data[i] = nondet<std::uint8_t>();
    v->n = nondet<std::uint8_t>();
    vt_assume(v->n <= 4);  // over-capacity logical buffers are excluded up front (Write must reject them)
  }
  static bool eq(const S1& a, const S1& b) {
    bool r = a.a == b.a && a.b == b.b && a.n == b.n;
    for (std::size_t i = 0; i < 4; i++)
      if (i < a.n) r = r && a.data[i] == b.data[i];
    return r;
  }
};

template <>
struct Fmt<P1> {
  static void enc(fmt::Out& o, const P1& v) {
    fmt::enc_header(o, FMT_STU, 2);
    Fmt<std::uint8_t>::enc(o, v.x);
    Fmt<bool>::enc(o, v.y);
  }
  static bool dec(fmt::In& in, P1* v) {
    if (!fmt::dec_header_fixed(in, FMT_STU, 2, nop::ErrorStatus::InvalidMemberCount)) return false;
    return Fmt<std::uint8_t>::dec(in, &v->x) && Fmt<bool>::dec(in, &v->y);
  }
};
template <>
struct Gen<P1> {
  static void make(P1* v) {
    v->x = nondet<std::uint8_t>();
    v->y = nondet<bool>();
  }
  static bool eq(const P1& a, const P1& b) { return a.x == b.x && a.y == b.y; }
};

template <>
struct Fmt<S2> {
  static void enc(fmt::Out& o, const S2& v) {
    fmt::enc_header(o, FMT_STU, 2);
    fmt::enc_header(o, FMT_BIN, 2);  // int8_t[2]: integral C array -> BIN
    fmt::put_raw(o, v.k[0]);
    fmt::put_raw(o, v.k[1]);
    fmt::enc_header(o, FMT_ARY, v.m);  // non-integral logical buffer -> ARY with element count
    for (std::size_t i = 0; i < 2; i++)
      if (i < v.m) Fmt<P1>::enc(o, v.items[i]);
  }
  static bool dec(fmt::In& in, S2* v) {
    if (!fmt::dec_header_fixed(in, FMT_STU, 2, nop::ErrorStatus::InvalidMemberCount)) return false;
    if (!fmt::dec_header_fixed(in, FMT_BIN, 2, nop::ErrorStatus::InvalidContainerLength)) return false;
    if (!fmt::get_raw(in, &v->k[0]) || !fmt::get_raw(in, &v->k[1])) return false;
    if (!fmt::expect_prefix(in, FMT_ARY)) return false;
    std::uint64_t cnt;
    if (!fmt::dec_uint(in, 8, &cnt)) return false;
    if (cnt > 2) return fmt::fail(in, nop::ErrorStatus::InvalidContainerLength);
    for (std::size_t i = 0; i < 2; i++)
      if (i < cnt && !Fmt<P1>::dec(in, &v->items[i])) return false;
    v->m = static_cast<std::uint32_t>(cnt);
    return true;
  }
};
template <>
struct Gen<S2> {
  static void make(S2* v) {
    v->k[0] = nondet<std::int8_t>();
    v->k[1] = nondet<std::int8_t>();
    Gen<P1>::make(&v->items[0]);
    Gen<P1>::make(&v->items[1]);
    v->m = nondet<std::uint32_t>();
    vt_assume(v->m <= 2);
  }
  static bool eq(const S2& a, const S2& b) {
    bool r = a.k[0] == b.k[0] && a.k[1] == b.k[1] && a.m == b.m;
    for (std::size_t i = 0; i < 2; i++)
      if (i < a.m) r = r && Gen<P1>::eq(a.items[i], b.items[i]);
    return r;
  }
};

template <>
struct Fmt<S3> {
  static void enc(fmt::Out& o, const S3& v) {
    fmt::enc_header(o, FMT_STU, 1);
    fmt::enc_header(o, FMT_BIN, static_cast<std::uint64_t>(v.n) * 2);
    for (std::size_t i = 0; i < 3; i++)
      if (i < static_cast<std::size_t>(v.n)) fmt::put_raw(o, v.w[i]);
  }
  static bool dec(fmt::In& in, S3* v) {
    if (!fmt::dec_header_fixed(in, FMT_STU, 1, nop::ErrorStatus::InvalidMemberCount)) return false;
    if (!fmt::expect_prefix(in, FMT_BIN)) return false;
    std::uint64_t len;
    if (!fmt::dec_uint(in, 8, &len)) return false;
    if (len > 6 || len % 2 != 0) return fmt::fail(in, nop::ErrorStatus::InvalidContainerLength);
    for (std::size_t i = 0; i < 3; i++)
      if (i < len / 2 && !fmt::get_raw(in, &v->w[i])) return false;
    v->n = static_cast<int>(len / 2);
    return true;
  }
};
template <>
struct Gen<S3> {
  static void make(S3* v) {
    for (int i = 0; i < 3; i++) v->w[i] = nondet<std::uint16_t>();
    v->n = nondet<int>();
    vt_assume(v->n >= 0 && v->n <= 3);
  }
  static bool eq(const S3& a, const S3& b) {
    bool r = a.n == b.n;
    for (int i = 0; i < 3; i++)
      if (i < a.n) r = r && a.w[i] == b.w[i];
    return r;
  }
};

template <>
struct Fmt<S4> {
  static void enc(fmt::Out& o, const S4& v) {
    fmt::enc_header(o, FMT_STU, 1);
    fmt::enc_header(o, FMT_ARY, v.n);
    for (std::size_t i = 0; i < 2; i++)
      if (i < v.n) Fmt<OptB>::enc(o, v.e[i]);
  }
  static bool dec(fmt::In& in, S4* v) {
    if (!fmt::dec_header_fixed(in, FMT_STU, 1, nop::ErrorStatus::InvalidMemberCount)) return false;
    if (!fmt::expect_prefix(in, FMT_ARY)) return false;
    std::uint64_t cnt;
    if (!fmt::dec_uint(in, 8, &cnt)) return false;
    if (cnt > 2) return fmt::fail(in, nop::ErrorStatus::InvalidContainerLength);
    for (std::size_t i = 0; i < 2; i++)
      if (i < cnt && !Fmt<OptB>::dec(in, &v->e[i])) return false;
    v->n = static_cast<std::uint8_t>(cnt);
    return true;
  }
};
template <>
struct Gen<S4> {
  static void make(S4* v) {
    Gen<OptB>::make(&v->e[0]);
    Gen<OptB>::make(&v->e[1]);
    v->n = nondet<std::uint8_t>();
    vt_assume(v->n <= 2);
  }
  static bool eq(const S4& a, const S4& b) {
    bool r = a.n == b.n;
    for (std::size_t i = 0; i < 2; i++)
      if (i < a.n) r = r && Gen<OptB>::eq(a.e[i], b.e[i]);
    return r;
  }
};
template <>
struct Fmt<V1> {  // a value wrapper is encoded exactly as the wrapped value
  static void enc(fmt::Out& o, const V1& v) { Fmt<std::uint16_t>::enc(o, v.v); }
  static bool dec(fmt::In& in, V1* v) { return Fmt<std::uint16_t>::dec(in, &v->v); }
};
template <>
struct Gen<V1> {
  static void make(V1* v) { v->v = nondet<std::uint16_t>(); }
  static bool eq(const V1& a, const V1& b) { return a.v == b.v; }
};

// the document's reading of the variant index class (INT64) — see known_findings.json F07
struct VarDocIndex64 {};
}  // namespace vt

#define VT_COMP(T, t, MAXN)                                                                       \
  VT_HARNESS(h_enc_##t) { vt::lemma_encode<T>(); }                                                \
  VT_HARNESS(h_dec_##t##_spec) { vt::lemma_decode<T, vt::SpecReader, MAXN, false>(); }            \
  VT_HARNESS(h_dec_##t##_buf) { vt::lemma_decode<T, nop::BufferReader, MAXN, false>(); }          \
  VT_HARNESS(h_dec_##t##_ped) { vt::lemma_decode<T, nop::PedanticBufferReader, MAXN, false>(); }  \
  VT_HARNESS(h_dec_##t##_bnd) { vt::lemma_decode<T, vt::BndR, MAXN, false>(); }                   \
  VT_HARNESS(h_rt_##t##_spec_spec) { vt::lemma_roundtrip<T, vt::SpecWriter, vt::SpecReader>(); }  \
  VT_HARNESS(h_rt_##t##_buf_buf) { vt::lemma_roundtrip<T, nop::BufferWriter, nop::BufferReader>(); } \
  VT_HARNESS(h_rt_##t##_ped_ped) { vt::lemma_roundtrip<T, nop::PedanticBufferWriter, nop::PedanticBufferReader>(); } \
  VT_HARNESS(h_rt_##t##_bnd_bnd) { vt::lemma_roundtrip<T, vt::BndW, vt::BndR>(); }                \
  VT_HARNESS(h_trunc_##t##_spec) { vt::lemma_truncate<T, vt::SpecReader, MAXN>(); }               \
  VT_HARNESS(h_trunc_##t##_buf) { vt::lemma_truncate<T, nop::BufferReader, MAXN>(); }             \
  VT_HARNESS(h_trunc_##t##_ped) { vt::lemma_truncate<T, nop::PedanticBufferReader, MAXN>(); }     \
  VT_HARNESS(h_trunc_##t##_bnd) { vt::lemma_truncate<T, vt::BndR, MAXN>(); }                      \
  VT_HARNESS(h_cap_##t##_bw) { vt::lemma_capacity<T, nop::BufferWriter, MAXN>(); }                \
  VT_HARNESS(h_cap_##t##_pw) { vt::lemma_capacity<T, nop::PedanticBufferWriter, MAXN>(); }        \
  VT_HARNESS(h_cap_##t##_bdw) { vt::lemma_capacity<T, vt::BndW, MAXN>(); }                        \
  VT_HARNESS(h_faultw_##t) { vt::lemma_fault_write<T>(); }                                        \
  VT_HARNESS(h_faultr_##t) { vt::lemma_fault_read<T, MAXN>(); }

VT_COMP(vt::ArrU16, arru16, 10)
VT_COMP(vt::ArrF32, arrf32, 14)
VT_COMP(vt::PairT, pair, 14)
VT_COMP(vt::TupleT, tuple, 11)
VT_COMP(vt::S1, s1, 18)
VT_COMP(vt::S2, s2, 20)
VT_COMP(vt::S3, s3, 12)
VT_COMP(vt::S4, s4, 12)
VT_COMP(vt::V1, v1, 5)
VT_COMP(vt::OptI32, opti32, 7)
VT_COMP(vt::ResU16, resu16, 8)
VT_COMP(vt::VarT, var, 9)
VT_COMP(vt::OptP1, optp1, 7)
VT_COMP(vt::VarP1, varp1, 9)
VT_COMP(vt::ArrP1, arrp1, 12)
