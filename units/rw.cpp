// C17 — every shipped buffer reader / writer against the one byte-source / byte-sink
// contract (units/rw.spec.py).  The x_* wrappers only force instantiation; contracts are
// on the nop:: member functions themselves.
#include <array>
#include <limits>
#include <nop/utility/buffer_reader.h>
#include <nop/utility/buffer_writer.h>
#include <nop/utility/constexpr_buffer_writer.h>
#include <nop/utility/pedantic_buffer_reader.h>
#include <nop/utility/pedantic_buffer_writer.h>

#include "vt.h"

namespace vt {

#define VT_READER(R, tag)                                                                              \
  nop::Status<void> x_##tag##_ensure(nop::R* r, std::size_t n) { return r->Ensure(n); }               \
  nop::Status<void> x_##tag##_read1(nop::R* r, std::uint8_t* b) { return r->Read(b); }                \
  nop::Status<void> x_##tag##_read_u8(nop::R* r, std::uint8_t* b, std::uint8_t* e) { return r->Read(b, e); }    \
  nop::Status<void> x_##tag##_read_u16(nop::R* r, std::uint16_t* b, std::uint16_t* e) { return r->Read(b, e); } \
  nop::Status<void> x_##tag##_read_u32(nop::R* r, std::uint32_t* b, std::uint32_t* e) { return r->Read(b, e); } \
  nop::Status<void> x_##tag##_read_u64(nop::R* r, std::uint64_t* b, std::uint64_t* e) { return r->Read(b, e); } \
  nop::Status<void> x_##tag##_read_f32(nop::R* r, float* b, float* e) { return r->Read(b, e); }        \
  nop::Status<void> x_##tag##_skip(nop::R* r, std::size_t n) { return r->Skip(n); }

VT_READER(BufferReader, br)
VT_READER(PedanticBufferReader, pr)

#define VT_WRITER(W, tag)                                                                              \
  nop::Status<void> x_##tag##_prepare(nop::W* w, std::size_t n) { return w->Prepare(n); }             \
  nop::Status<void> x_##tag##_write1(nop::W* w, std::uint8_t b) { return w->Write(b); }               \
  nop::Status<void> x_##tag##_write_u8(nop::W* w, const std::uint8_t* b, const std::uint8_t* e) { return w->Write(b, e); }    \
  nop::Status<void> x_##tag##_write_u16(nop::W* w, const std::uint16_t* b, const std::uint16_t* e) { return w->Write(b, e); } \
  nop::Status<void> x_##tag##_write_u32(nop::W* w, const std::uint32_t* b, const std::uint32_t* e) { return w->Write(b, e); } \
  nop::Status<void> x_##tag##_write_u64(nop::W* w, const std::uint64_t* b, const std::uint64_t* e) { return w->Write(b, e); } \
  nop::Status<void> x_##tag##_write_i32(nop::W* w, const std::int32_t* b, const std::int32_t* e) { return w->Write(b, e); } \
  nop::Status<void> x_##tag##_skip(nop::W* w, std::size_t n, std::uint8_t v) { return w->Skip(n, v); }

VT_WRITER(BufferWriter, bw)
VT_WRITER(PedanticBufferWriter, pw)
VT_WRITER(ConstexprBufferWriter, cw)
nop::Status<void> x_bw_write_f32(nop::BufferWriter* w, const float* b, const float* e) { return w->Write(b, e); }
nop::Status<void> x_pw_write_f32(nop::PedanticBufferWriter* w, const float* b, const float* e) { return w->Write(b, e); }

}  // namespace vt
