// Modular "consumption tower" for table decoding over PedanticBufferReader (units/tabmod.spec.py): weak, ghost-free
// contracts (stays inside the buffer, never moves backwards, a successful step consumes at least one byte) on the
// uint64 decoder, SkipEntry, ReadEntry, ReadEntryForId, and a LOOP CONTRACT on ReadEntries.  The table types are those
// of units/table.cpp (included; its harnesses are not roots of this unit).  The x_* wrappers only force instantiation.
#include "table.cpp"

nop::Status<void> x_tm_payload(vt::TW* t, nop::PedanticBufferReader* r) {
  return nop::Encoding<vt::TW>::ReadPayload(nop::EncodingByte::Table, t, r);
}
nop::Status<void> x_tm_read(vt::TW* t, nop::PedanticBufferReader* r) { return nop::Encoding<vt::TW>::Read(t, r); }
