// Growable containers: std::vector (integral and non-integral elements), std::string,
// std::map, std::unordered_map over the verification models of spec/stdmodel (lowering)
// and over the real libstdc++ (native replay).  libnop's own code (base/vector.h,
// base/string.h, base/map.h) is lowered unchanged.
#include <array>
#include <limits>
#include <new>
#include <map>
#include <string>
#include <unordered_map>
#include <vector>
#include <nop/base/encoding.h>
#include <nop/base/map.h>
#include <nop/base/members.h>
#include <nop/base/pair.h>
#include <nop/base/serializer.h>
#include <nop/base/string.h>
#include <nop/base/vector.h>
#include <nop/structure.h>

#include "format_spec_std.h"
#include "lemmas.h"

namespace vt {
using BndR = nop::BoundedReader<nop::PedanticBufferReader>;
using VecU8 = std::vector<std::uint8_t>;
using VecU32 = std::vector<std::uint32_t>;
using VecPair = std::vector<std::pair<std::uint8_t, bool>>;
using Str = std::string;
using WStr = std::wstring;  // wide characters: byte length == 4 * characters
using MapT = std::map<std::uint16_t, std::uint8_t>;   // multi-byte key: a cut inside a key leaves bytes that parse as a value
using UMapT = std::unordered_map<std::uint16_t, std::uint8_t>;
}  // namespace vt

#define VT_STD(T, t, MAXN)                                                                        \
  VT_HARNESS(h_enc_##t) { vt::lemma_encode<T>(); }                                                \
  VT_HARNESS(h_dec_##t##_spec) { vt::lemma_decode<T, vt::SpecReader, MAXN, false>(); }            \
  VT_HARNESS(h_dec_##t##_ped) { vt::lemma_decode<T, nop::PedanticBufferReader, MAXN, false>(); }  \
  VT_HARNESS(h_dec_##t##_buf) { vt::lemma_decode<T, nop::BufferReader, MAXN, false>(); }          \
  VT_HARNESS(h_rt_##t##_ped_ped) { vt::lemma_roundtrip<T, nop::PedanticBufferWriter, nop::PedanticBufferReader>(); } \
  VT_HARNESS(h_rt_##t##_spec_spec) { vt::lemma_roundtrip<T, vt::SpecWriter, vt::SpecReader>(); }  \
  VT_HARNESS(h_trunc_##t##_ped) { vt::lemma_truncate<T, nop::PedanticBufferReader, MAXN>(); }     \
  VT_HARNESS(h_trunc_##t##_buf) { vt::lemma_truncate<T, nop::BufferReader, MAXN>(); }             \
  VT_HARNESS(h_cap_##t##_bw) { vt::lemma_capacity<T, nop::BufferWriter, MAXN>(); }                \
  VT_HARNESS(h_faultw_##t) { vt::lemma_fault_write<T>(); }                                        \
  VT_HARNESS(h_faultr_##t) { vt::lemma_fault_read<T, MAXN>(); }

// small-input variants of the element-wise containers (minutes per job at the full bound): the same lemmas over
// inputs of at most MAXN bytes, cheap enough for the quick tier
#define VT_STD_SMALL(T, t, MAXN)                                                                  \
  VT_HARNESS(h_dec_##t##_ped) { vt::lemma_decode<T, nop::PedanticBufferReader, MAXN, false>(); }  \
  VT_HARNESS(h_trunc_##t##_ped) { vt::lemma_truncate<T, nop::PedanticBufferReader, MAXN>(); }     \
  VT_HARNESS(h_cap_##t##_bw) { vt::lemma_capacity<T, nop::BufferWriter, MAXN>(); }

VT_STD(vt::VecU8, vecu8, 7)
VT_STD(vt::VecU32, vecu32, 16)
VT_STD(vt::VecPair, vecpair, 12)
VT_STD(vt::Str, str, 10)
VT_STD(vt::WStr, wstr, 14)
VT_STD(vt::MapT, map, 12)
VT_STD(vt::UMapT, umap, 12)
VT_STD_SMALL(vt::MapT, map8, 8)
VT_STD_SMALL(vt::UMapT, umap8, 8)
VT_STD_SMALL(vt::VecPair, vecpair8, 8)
