// C20 — HostEndian<T> conversions are the byte-order maps they claim to be.
// Loop-free apart from constant-trip-count byte loops; all 2^(8*sizeof T) values.
#include <array>
#include <nop/utility/endian.h>

#include "vt.h"

namespace vt {

inline bool host_is_little() {
  std::uint16_t probe = 1;
  std::uint8_t first;
  std::memcpy(&first, &probe, 1);
  return first == 1;
}

template <typename T>
void endian_lemma() {
  const std::size_t N = sizeof(T);
  T v = nondet<T>();
  std::uint8_t in[N], fl[N], tl[N], fb[N], tb[N], rl[N], rb[N], rl2[N], rb2[N];
  T x;
  std::memcpy(in, &v, N);
  x = nop::HostEndian<T>::FromLittle(v); std::memcpy(fl, &x, N);
  x = nop::HostEndian<T>::ToLittle(v); std::memcpy(tl, &x, N);
  x = nop::HostEndian<T>::FromBig(v); std::memcpy(fb, &x, N);
  x = nop::HostEndian<T>::ToBig(v); std::memcpy(tb, &x, N);
  x = nop::HostEndian<T>::FromLittle(nop::HostEndian<T>::ToLittle(v)); std::memcpy(rl, &x, N);
  x = nop::HostEndian<T>::FromBig(nop::HostEndian<T>::ToBig(v)); std::memcpy(rb, &x, N);
  x = nop::HostEndian<T>::ToLittle(nop::HostEndian<T>::FromLittle(v)); std::memcpy(rl2, &x, N);
  x = nop::HostEndian<T>::ToBig(nop::HostEndian<T>::FromBig(v)); std::memcpy(rb2, &x, N);
  const bool little = host_is_little();
  for (std::size_t i = 0; i < N; i++) {
    // the conversion that matches the host order is the identity on the object
    // representation, the other one reverses its bytes
    const std::uint8_t same = in[i], rev = in[N - 1 - i];
    vt_check(fl[i] == (little ? same : rev), "FromLittle is host<->little-endian byte map");
    vt_check(tl[i] == (little ? same : rev), "ToLittle is host<->little-endian byte map");
    vt_check(fb[i] == (little ? rev : same), "FromBig is host<->big-endian byte map");
    vt_check(tb[i] == (little ? rev : same), "ToBig is host<->big-endian byte map");
    vt_check(rl[i] == same, "FromLittle(ToLittle(v)) == v bit for bit");
    vt_check(rb[i] == same, "FromBig(ToBig(v)) == v bit for bit");
    vt_check(rl2[i] == same, "ToLittle(FromLittle(v)) == v bit for bit");
    vt_check(rb2[i] == same, "ToBig(FromBig(v)) == v bit for bit");
  }
  vt_cover(true, "lemma end reached");
}

}  // namespace vt

VT_HARNESS(h_endian_i8) { vt::endian_lemma<std::int8_t>(); }
VT_HARNESS(h_endian_u8) { vt::endian_lemma<std::uint8_t>(); }
VT_HARNESS(h_endian_i16) { vt::endian_lemma<std::int16_t>(); }
VT_HARNESS(h_endian_u16) { vt::endian_lemma<std::uint16_t>(); }
VT_HARNESS(h_endian_i32) { vt::endian_lemma<std::int32_t>(); }
VT_HARNESS(h_endian_u32) { vt::endian_lemma<std::uint32_t>(); }
VT_HARNESS(h_endian_i64) { vt::endian_lemma<std::int64_t>(); }
VT_HARNESS(h_endian_u64) { vt::endian_lemma<std::uint64_t>(); }
VT_HARNESS(h_endian_f32) { vt::endian_lemma<float>(); }
VT_HARNESS(h_endian_f64) { vt::endian_lemma<double>(); }
