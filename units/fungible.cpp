// C09 — IsFungible<A,B> implies wire compatibility; reflexive, symmetric; documented pairs true.
#include <array>
#include <limits>
#include <new>
#include <map>
#include <string>
#include <tuple>
#include <unordered_map>
#include <vector>
#include <nop/base/array.h>
#include <nop/base/encoding.h>
#include <nop/base/enum.h>
#include <nop/base/logical_buffer.h>
#include <nop/base/map.h>
#include <nop/base/members.h>
#include <nop/base/optional.h>
#include <nop/base/pair.h>
#include <nop/base/result.h>
#include <nop/base/serializer.h>
#include <nop/base/table.h>
#include <nop/base/tuple.h>
#include <nop/base/value.h>
#include <nop/base/variant.h>
#include <nop/base/vector.h>
#include <nop/protocol.h>
#include <nop/structure.h>
#include <nop/table.h>
#include <nop/traits/is_fungible.h>
#include <nop/value.h>

#include "format_spec_std.h"
#include "lemmas.h"

namespace vt {

using ArrF2 = std::array<float, 2>;
using PairF = std::pair<float, float>;
using TupF = std::tuple<float, float>;
using PairT = std::pair<std::uint8_t, std::int64_t>;
using TupT = std::tuple<std::uint8_t, std::int64_t>;
using ArrU16 = std::array<std::uint16_t, 3>;
using CArrU16 = std::uint16_t[3];
using CArrF2 = float[2];
using TupU16 = std::tuple<std::uint16_t, std::uint16_t, std::uint16_t>;
using VecU8 = std::vector<std::uint8_t>;
using ArrU8 = std::array<std::uint8_t, 2>;
using VecF = std::vector<float>;
using VecU16 = std::vector<std::uint16_t>;
using MapT = std::map<std::uint8_t, std::int16_t>;
using UMapT = std::unordered_map<std::uint8_t, std::int16_t>;
enum class Err : std::int32_t { None = 0, A = 5 };

struct V1 {
  std::uint16_t v;
  NOP_VALUE(V1, v);
};
template <>
struct Fmt<V1> {
  static void enc(fmt::Out& o, const V1& v) { Fmt<std::uint16_t>::enc(o, v.v); }
  static bool dec(fmt::In& in, V1* v) { return Fmt<std::uint16_t>::dec(in, &v->v); }
};
template <>
struct Gen<V1> {
  static void make(V1* v) { v->v = nondet<std::uint16_t>(); }
  static bool eq(const V1& a, const V1& b) { return a.v == b.v; }
};
using OptV1 = nop::Optional<V1>;
using OptU16 = nop::Optional<std::uint16_t>;
using ResV1 = nop::Result<Err, V1>;
using ResU16 = nop::Result<Err, std::uint16_t>;
using VarV1 = nop::Variant<V1, bool>;
using VarU16 = nop::Variant<std::uint16_t, bool>;

// the same table with one entry active in one definition and retired (DeletedEntry) in the other: NOT wire compatible
// (the deleted side skips the value and never writes it), so the trait must say false; if it ever says true the wire
// half of the lemma below refutes it
struct TAct {
  nop::Entry<std::uint16_t, 0> x;
  nop::Entry<std::uint8_t, 1> y;
  NOP_TABLE_HASH(13, TAct, x, y);
};
struct TDel {
  nop::Entry<std::uint16_t, 0, nop::DeletedEntry> x;
  nop::Entry<std::uint8_t, 1> y;
  NOP_TABLE_HASH(13, TDel, x, y);
};
template <typename E>
inline std::uint64_t tpresent(const E& e) { return e.empty() ? 0 : 1; }
template <>
struct Fmt<TAct> {
  static void enc(fmt::Out& o, const TAct& v) {
    fmt::put(o, FMT_TAB);
    fmt::enc_uint(o, 13);
    fmt::enc_uint(o, tpresent(v.x) + tpresent(v.y));
    fmt::enc_entry(o, 0, v.x, 0);
    fmt::enc_entry(o, 1, v.y, 0);
  }
  static bool dec(fmt::In& in, TAct* v) {
    v->x.clear();
    v->y.clear();
    std::uint64_t count;
    if (!fmt::dec_table_header(in, 13, &count)) return false;
    for (std::uint64_t i = 0; i < count; i++) {
      std::uint64_t id;
      if (!fmt::dec_uint(in, 8, &id)) return false;
      if (id == 0) { if (!fmt::dec_entry<std::uint16_t>(in, &v->x)) return false; }
      else if (id == 1) { if (!fmt::dec_entry<std::uint8_t>(in, &v->y)) return false; }
      else if (!fmt::skip_entry(in)) return false;
    }
    return true;
  }
};
template <>
struct Gen<TAct> {
  static void make(TAct* v) {
    if (nondet<bool>()) v->x = nondet<std::uint16_t>(); else v->x.clear();
    if (nondet<bool>()) v->y = nondet<std::uint8_t>(); else v->y.clear();
  }
  static bool eq(const TAct& a, const TAct& b) { return a.x == b.x && a.y == b.y; }
};
template <>
struct Fmt<TDel> {
  static void enc(fmt::Out& o, const TDel& v) {
    fmt::put(o, FMT_TAB);
    fmt::enc_uint(o, 13);
    fmt::enc_uint(o, tpresent(v.y));
    fmt::enc_entry(o, 1, v.y, 0);
  }
  static bool dec(fmt::In& in, TDel* v) {
    v->y.clear();
    std::uint64_t count;
    if (!fmt::dec_table_header(in, 13, &count)) return false;
    for (std::uint64_t i = 0; i < count; i++) {
      std::uint64_t id;
      if (!fmt::dec_uint(in, 8, &id)) return false;
      if (id == 1) { if (!fmt::dec_entry<std::uint8_t>(in, &v->y)) return false; }
      else if (!fmt::skip_entry(in)) return false;
    }
    return true;
  }
};
template <>
struct Gen<TDel> {
  static void make(TDel* v) {
    if (nondet<bool>()) v->y = nondet<std::uint8_t>(); else v->y.clear();
  }
  static bool eq(const TDel& a, const TDel& b) { return a.y == b.y; }
};

// member-wise fungible structures: std::array member vs C array member
struct SA {
  ArrU16 a;
  std::uint8_t b;
  NOP_STRUCTURE(SA, a, b);
};
struct SC {
  std::uint16_t a[3];
  std::uint8_t b;
  NOP_STRUCTURE(SC, a, b);
};
template <>
struct Fmt<SA> {
  static void enc(fmt::Out& o, const SA& v) {
    fmt::enc_header(o, FMT_STU, 2);
    Fmt<ArrU16>::enc(o, v.a);
    Fmt<std::uint8_t>::enc(o, v.b);
  }
  static bool dec(fmt::In& in, SA* v) {
    if (!fmt::dec_header_fixed(in, FMT_STU, 2, nop::ErrorStatus::InvalidMemberCount)) return false;
    return Fmt<ArrU16>::dec(in, &v->a) && Fmt<std::uint8_t>::dec(in, &v->b);
  }
};
template <>
struct Gen<SA> {
  static void make(SA* v) { Gen<ArrU16>::make(&v->a); v->b = nondet<std::uint8_t>(); }
  static bool eq(const SA& a, const SA& b) { return Gen<ArrU16>::eq(a.a, b.a) && a.b == b.b; }
};
template <>
struct Fmt<SC> {
  static void enc(fmt::Out& o, const SC& v) {
    fmt::enc_header(o, FMT_STU, 2);
    Fmt<CArrU16>::enc(o, v.a);
    Fmt<std::uint8_t>::enc(o, v.b);
  }
  static bool dec(fmt::In& in, SC* v) {
    if (!fmt::dec_header_fixed(in, FMT_STU, 2, nop::ErrorStatus::InvalidMemberCount)) return false;
    return Fmt<CArrU16>::dec(in, &v->a) && Fmt<std::uint8_t>::dec(in, &v->b);
  }
};
template <>
struct Gen<SC> {
  static void make(SC* v) { Gen<CArrU16>::make(&v->a); v->b = nondet<std::uint8_t>(); }
  static bool eq(const SC& a, const SC& b) { return Gen<CArrU16>::eq(a.a, b.a) && a.b == b.b; }
};

// logical buffer (each of two size-member types) vs vector
struct LB8 {
  std::uint16_t w[3];
  std::uint8_t n;
  NOP_STRUCTURE(LB8, (w, n));
};
struct LBI {
  std::uint16_t w[3];
  int n;
  NOP_STRUCTURE(LBI, (w, n));
};
struct SV {
  VecU16 v;
  NOP_STRUCTURE(SV, v);
};
template <typename L>
struct LBFmt {
  static void enc(fmt::Out& o, const L& v) {
    fmt::enc_header(o, FMT_STU, 1);
    fmt::enc_header(o, FMT_BIN, static_cast<std::uint64_t>(v.n) * 2);
    for (std::size_t i = 0; i < 3; i++)
      if (i < static_cast<std::size_t>(v.n)) fmt::put_raw(o, v.w[i]);
  }
  static bool dec(fmt::In& in, L* v) {
    if (!fmt::dec_header_fixed(in, FMT_STU, 1, nop::ErrorStatus::InvalidMemberCount)) return false;
    if (!fmt::expect_prefix(in, FMT_BIN)) return false;
    std::uint64_t len;
    if (!fmt::dec_uint(in, 8, &len)) return false;
    if (len > 6 || len % 2 != 0) return fmt::fail(in, nop::ErrorStatus::InvalidContainerLength);
    for (std::size_t i = 0; i < 3; i++)
      if (i < len / 2 && !fmt::get_raw(in, &v->w[i])) return false;
    v->n = static_cast<decltype(v->n)>(len / 2);
    return true;
  }
  static void make(L* v) {
    for (int i = 0; i < 3; i++) v->w[i] = nondet<std::uint16_t>();
    v->n = static_cast<decltype(v->n)>(nondet<std::uint8_t>());
    vt_assume(v->n >= 0 && v->n <= 3);
  }
  static bool eq(const L& a, const L& b) {
    bool r = a.n == b.n;
    for (int i = 0; i < 3; i++)
      if (i < static_cast<int>(a.n)) r = r && a.w[i] == b.w[i];
    return r;
  }
};
template <> struct Fmt<LB8> : LBFmt<LB8> {};
template <> struct Gen<LB8> : LBFmt<LB8> {};
template <> struct Fmt<LBI> : LBFmt<LBI> {};
template <> struct Gen<LBI> : LBFmt<LBI> {};
template <>
struct Fmt<SV> {
  static void enc(fmt::Out& o, const SV& v) {
    fmt::enc_header(o, FMT_STU, 1);
    Fmt<VecU16>::enc(o, v.v);
  }
  static bool dec(fmt::In& in, SV* v) {
    if (!fmt::dec_header_fixed(in, FMT_STU, 1, nop::ErrorStatus::InvalidMemberCount)) return false;
    return Fmt<VecU16>::dec(in, &v->v);
  }
};
template <>
struct Gen<SV> {
  static void make(SV* v) { Gen<VecU16>::make(&v->v); }
  static bool eq(const SV& a, const SV& b) { return Gen<VecU16>::eq(a.v, b.v); }
};

// element counts of A must fit B's capacity
template <typename A, typename B>
struct Fit {
  static bool ok(const A&) { return true; }
};
template <typename T, std::size_t N>
struct Fit<std::vector<T>, std::array<T, N>> {
  static bool ok(const std::vector<T>& a) { return a.size() == N; }
};
template <typename T, std::size_t N>
struct Fit<std::vector<T>, T[N]> {
  static bool ok(const std::vector<T>& a) { return a.size() == N; }
};
template <typename T, typename... Ts>
struct Fit<std::vector<T>, std::tuple<Ts...>> {
  static bool ok(const std::vector<T>& a) { return a.size() == sizeof...(Ts); }
};

// Does overload resolution admit Protocol<P>::Read(Deserializer*, T*) / Protocol<P>::Write(Serializer*, const T&)?
// (compile-time facts, detected with SFINAE so that a gate that wrongly rejects a pair is a failed obligation, not a
// unit that stops compiling)
template <typename... Ts>
struct VoidT { using type = void; };
using PDes = nop::Deserializer<nop::PedanticBufferReader*>;
using PSer = nop::Serializer<nop::PedanticBufferWriter*>;
template <typename P, typename T, typename = void>
struct CanRead { static constexpr bool value = false; };
template <typename P, typename T>
struct CanRead<P, T, typename VoidT<decltype(nop::Protocol<P>::Read(static_cast<PDes*>(nullptr), static_cast<T*>(nullptr)))>::type> {
  static constexpr bool value = true;
};
template <typename P, typename T, typename = void>
struct CanWrite { static constexpr bool value = false; };
template <typename P, typename T>
struct CanWrite<P, T, typename VoidT<decltype(nop::Protocol<P>::Write(static_cast<PSer*>(nullptr), *static_cast<const T*>(nullptr)))>::type> {
  static constexpr bool value = true;
};

// The wire half of C09 for one ordered pair, guarded by the value the trait actually has.
template <typename A, typename B, bool DocumentedFungible>
void lemma_fungible() {
  const bool fab = nop::IsFungible<A, B>::value, fba = nop::IsFungible<B, A>::value;
  vt_check(fab == fba, "IsFungible<A,B> == IsFungible<B,A>");
  vt_check(nop::IsFungible<A, A>::value && nop::IsFungible<B, B>::value, "IsFungible<A,A> is true");
  vt_check(!DocumentedFungible || fab, "a pair the documentation declares fungible evaluates to true");
  vt_check((CanRead<A, B>::value == fab) && (CanWrite<A, B>::value == fab) && (CanRead<B, A>::value == fba) && (CanWrite<B, A>::value == fba),
           "Protocol<P>::Read / Write admit a type exactly when IsFungible says so");
  vt_cover(true, "trait facts evaluated");
  if (!fab) {
    vt_cover(true, "end reached");  // a pair the trait rejects has no wire obligation
    return;
  }
  A a;
  Gen<A>::make(&a);
  vt_assume((Fit<A, B>::ok(a)));
  std::uint8_t buf[fmt::kCap], buf2[fmt::kCap];
  nop::PedanticBufferWriter w(buf, sizeof buf);
  nop::Serializer<nop::PedanticBufferWriter*> s{&w};
  auto ws = s.Write(a);
  vt_check(static_cast<bool>(ws), "writing the A value succeeds");
  const std::size_t len = w.size();
  nop::PedanticBufferReader r(buf, len);
  nop::Deserializer<nop::PedanticBufferReader*> d{&r};
  B b;
  Gen<B>::make(&b);
  auto rs = d.Read(&b);
  vt_check(static_cast<bool>(rs), "every encoding of an A value (counts fitting B) decodes as B");
  vt_check(r.remaining() == 0, "decoding as B consumes exactly the encoding");
  fmt::In in;
  fmt::init(in, buf, len);
  B ref;
  Gen<B>::make(&ref);
  vt_check(Fmt<B>::dec(in, &ref) && Gen<B>::eq(b, ref), "the B value is the one the bytes denote under B's documented schema");
  nop::PedanticBufferWriter w2(buf2, sizeof buf2);
  nop::Serializer<nop::PedanticBufferWriter*> s2{&w2};
  auto ws2 = s2.Write(b);
  vt_check(static_cast<bool>(ws2) && w2.size() == len, "re-encoding the B value has the same length");
  const std::size_t i = nondet<std::uint8_t>();
  vt_assume(i < len);
  vt_check(buf2[i] == buf[i], "re-encoding the B value reproduces the same bytes");
  vt_cover(len > 2, "end reached");
}

}  // namespace vt

#define VT_FUNG(name, A, B, DOC)                                \
  VT_HARNESS(h_fung_##name##_ab) { vt::lemma_fungible<A, B, DOC>(); } \
  VT_HARNESS(h_fung_##name##_ba) { vt::lemma_fungible<B, A, DOC>(); }

VT_FUNG(arr_pair, vt::ArrF2, vt::PairF, false)
VT_FUNG(arr_tuple, vt::ArrF2, vt::TupF, true)
VT_FUNG(pair_tuple, vt::PairT, vt::TupT, true)
VT_FUNG(arr_carr, vt::ArrU16, vt::CArrU16, true)
VT_FUNG(arr_carr_f, vt::ArrF2, vt::CArrF2, true)
VT_FUNG(tup_carr_f, vt::TupF, vt::CArrF2, true)
VT_FUNG(intarr_tuple, vt::ArrU16, vt::TupU16, false)
VT_FUNG(wrapper, vt::V1, std::uint16_t, true)
VT_FUNG(vec_arr_u8, vt::VecU8, vt::ArrU8, true)
VT_FUNG(vec_arr_f, vt::VecF, vt::ArrF2, true)
VT_FUNG(vec_tuple_f, vt::VecF, vt::TupF, true)
VT_FUNG(vec_carr, vt::VecU16, vt::CArrU16, true)
VT_FUNG(map_umap, vt::MapT, vt::UMapT, true)
VT_FUNG(struct_members, vt::SA, vt::SC, true)
VT_FUNG(lb8_vec, vt::LB8, vt::SV, true)
VT_FUNG(lbi_vec, vt::LBI, vt::SV, true)
VT_FUNG(lb8_lbi, vt::LB8, vt::LBI, true)
VT_FUNG(optional, vt::OptV1, vt::OptU16, true)
VT_FUNG(result, vt::ResV1, vt::ResU16, true)
VT_FUNG(variant, vt::VarV1, vt::VarU16, true)
VT_FUNG(tab_act_del, vt::TAct, vt::TDel, false)
