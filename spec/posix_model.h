/* posix_model.h — ASSUMED contract of read(2) / write(2) / close(2) for a byte source and a
 * byte sink behind file descriptors (common subset of C and C++; used by CBMC through
 * vt_prelude.h and natively through spec/vt_native.cpp, where these definitions interpose
 * libc's for the model descriptors, so that a replay runs the real FdReader / FdWriter over
 * the same model of the OS).
 *   read : -1/EINTR at call index intr_at (once), -1/EIO at call index fail_at, 0 at end of
 *          data, otherwise between 1 and min(count, chunk, remaining) bytes (short reads).
 *   write: the same plan; 0 when the sink is full.                                         */
#ifndef VT_POSIX_MODEL_H
#define VT_POSIX_MODEL_H
#include <stddef.h>
#define VT_FD_SRC 1001
#define VT_FD_DST 1002
#define VT_EINTR 4
#define VT_EIO 5
#define VT_EBADF 9
#ifdef __cplusplus
extern "C" {
#endif
/* accessors used by the C++ harnesses (the state itself stays on the C side) */
void vt_fd_source(const unsigned char* b, unsigned long n, unsigned long intr_at, unsigned long fail_at, unsigned long chunk);
void vt_fd_sink(unsigned char* b, unsigned long cap, unsigned long intr_at, unsigned long fail_at, unsigned long chunk);
unsigned long vt_fd_consumed(void);
unsigned long vt_fd_produced(void);
unsigned long vt_fd_closed(int which);
void vt_fd_reset_closed(void);
/* any other descriptor number can be WATCHED: close() on it is counted (and, natively, not passed to the kernel) */
void vt_fd_watch(int fd);
unsigned long vt_fd_closed_watch(void);
#ifdef __cplusplus
}
#endif
#ifdef VT_POSIX_IMPL
struct vt_fd_state {
  const unsigned char* src; unsigned long len, pos;      /* source behind VT_FD_SRC */
  unsigned char* dst; unsigned long cap, wpos;           /* sink behind VT_FD_DST */
  unsigned long calls, intr_at, fail_at, chunk;          /* plan shared by both */
  unsigned long closed_src, closed_dst;
  int watch_fd; unsigned long watching, closed_watch;
};
#ifdef __cplusplus
extern "C" {
#endif
extern struct vt_fd_state vt_fd;
void vt_set_errno(int e);
#ifdef __cplusplus
}
#endif
static inline long vt_posix_read(int fd, void* buf, unsigned long count) {
  unsigned long k = vt_fd.calls, n, i;
  if (fd != VT_FD_SRC) { vt_set_errno(VT_EBADF); return -1; }
  vt_fd.calls = k + 1;
  if (k == vt_fd.intr_at) { vt_set_errno(VT_EINTR); return -1; }
  if (k == vt_fd.fail_at) { vt_set_errno(VT_EIO); return -1; }
  if (vt_fd.pos >= vt_fd.len || count == 0) return 0;
  n = vt_fd.len - vt_fd.pos;
  if (n > count) n = count;
  if (vt_fd.chunk != 0 && n > vt_fd.chunk) n = vt_fd.chunk;
  if (n > 8) n = 8; /* a transfer may always be short: at most 8 bytes per call, loop-free */
  (void)i;
#define VT_RD(j) if (n > j) ((unsigned char*)buf)[j] = vt_fd.src[vt_fd.pos + j];
  VT_RD(0) VT_RD(1) VT_RD(2) VT_RD(3) VT_RD(4) VT_RD(5) VT_RD(6) VT_RD(7)
#undef VT_RD
  vt_fd.pos += n;
  return (long)n;
}
static inline long vt_posix_write(int fd, const void* buf, unsigned long count) {
  unsigned long k = vt_fd.calls, n, i;
  if (fd != VT_FD_DST) { vt_set_errno(VT_EBADF); return -1; }
  vt_fd.calls = k + 1;
  if (k == vt_fd.intr_at) { vt_set_errno(VT_EINTR); return -1; }
  if (k == vt_fd.fail_at) { vt_set_errno(VT_EIO); return -1; }
  if (vt_fd.wpos >= vt_fd.cap || count == 0) return 0;
  n = vt_fd.cap - vt_fd.wpos;
  if (n > count) n = count;
  if (vt_fd.chunk != 0 && n > vt_fd.chunk) n = vt_fd.chunk;
  if (n > 8) n = 8;
  (void)i;
#define VT_WR(j) if (n > j) vt_fd.dst[vt_fd.wpos + j] = ((const unsigned char*)buf)[j];
  VT_WR(0) VT_WR(1) VT_WR(2) VT_WR(3) VT_WR(4) VT_WR(5) VT_WR(6) VT_WR(7)
#undef VT_WR
  vt_fd.wpos += n;
  return (long)n;
}
static inline int vt_posix_close(int fd) {
  if (fd == VT_FD_SRC) vt_fd.closed_src += 1;
  else if (fd == VT_FD_DST) vt_fd.closed_dst += 1;
  else if (vt_fd.watching && fd == vt_fd.watch_fd) vt_fd.closed_watch += 1;
  return 0;
}
#define VT_POSIX_ACCESSORS \
  void vt_fd_source(const unsigned char* b, unsigned long n, unsigned long intr_at, unsigned long fail_at, unsigned long chunk) { \
    vt_fd.src = b; vt_fd.len = n; vt_fd.pos = 0; vt_fd.calls = 0; vt_fd.intr_at = intr_at; vt_fd.fail_at = fail_at; vt_fd.chunk = chunk; } \
  void vt_fd_sink(unsigned char* b, unsigned long cap, unsigned long intr_at, unsigned long fail_at, unsigned long chunk) { \
    vt_fd.dst = b; vt_fd.cap = cap; vt_fd.wpos = 0; vt_fd.calls = 0; vt_fd.intr_at = intr_at; vt_fd.fail_at = fail_at; vt_fd.chunk = chunk; } \
  unsigned long vt_fd_consumed(void) { return vt_fd.pos; } \
  unsigned long vt_fd_produced(void) { return vt_fd.wpos; } \
  unsigned long vt_fd_closed(int which) { return which == VT_FD_SRC ? vt_fd.closed_src : vt_fd.closed_dst; } \
  void vt_fd_reset_closed(void) { vt_fd.closed_src = 0; vt_fd.closed_dst = 0; vt_fd.closed_watch = 0; vt_fd.watching = 0; } \
  void vt_fd_watch(int fd) { vt_fd.watch_fd = fd; vt_fd.watching = 1; vt_fd.closed_watch = 0; } \
  unsigned long vt_fd_closed_watch(void) { return vt_fd.closed_watch; }
#endif /* VT_POSIX_IMPL */
#endif
