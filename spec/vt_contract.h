/* vt_contract.h — shorthands used by the contract side-car files (units/*.spec). */
#ifndef VT_CONTRACT_H
#define VT_CONTRACT_H
#define RET __CPROVER_return_value
#define OLD(x) __CPROVER_old(x)
#define FRESH(p) __CPROVER_is_fresh((p), sizeof(*(p)))
#define FRESHN(p, n) __CPROVER_is_fresh((p), (n))
/* nop::Status<void> is `struct { struct Result<ErrorStatus,void> __b0; }` with one field error_ */
#define ERR(s) ((int)(s).__b0.error_)
#define E_None 0
#define E_UnexpectedEncodingType 1
#define E_UnexpectedHandleType 2
#define E_UnexpectedVariantType 3
#define E_InvalidContainerLength 4
#define E_InvalidMemberCount 5
#define E_InvalidStringLength 6
#define E_InvalidTableHash 7
#define E_InvalidHandleReference 8
#define E_InvalidHandleValue 9
#define E_InvalidInterfaceMethod 10
#define E_DuplicateTableEntry 11
#define E_ReadLimitReached 12
#define E_WriteLimitReached 13
#define E_StreamError 14
#define E_ProtocolError 15
#define E_IOError 16
#define E_SystemError 17
#define E_DebugError 18
/* length in bytes of the smallest unsigned integer class holding v (docs/format.md, Integer Encoding Class) */
#define VT_LEN_UINT(v) ((v) <= 0x7fUL ? 1UL : (v) <= 0xffUL ? 2UL : (v) <= 0xffffUL ? 3UL : (v) <= 0xffffffffUL ? 5UL : 9UL)
/* ghost index used instead of quantifiers over byte ranges (fixed but arbitrary) */
unsigned long vt_k;
#endif
