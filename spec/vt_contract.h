/* vt_contract.h — shorthands used by the contract side-car files (units/*.spec). */
#ifndef VT_CONTRACT_H
#define VT_CONTRACT_H
#define RET __CPROVER_return_value
#define OLD(x) __CPROVER_old(x)
#define FRESH(p) __CPROVER_is_fresh((p), sizeof(*(p)))
#define FRESHN(p, n) __CPROVER_is_fresh((p), (n))
/* nop::Status<void> is `struct { struct Result<ErrorStatus,void> __b0; }` with one field error_ */
#define ERR(s) ((int)(s).__b0.error_)
#define E_None 0
#define E_UnexpectedEncodingType 1
#define E_UnexpectedHandleType 2
#define E_UnexpectedVariantType 3
#define E_InvalidContainerLength 4
#define E_InvalidMemberCount 5
#define E_InvalidStringLength 6
#define E_InvalidTableHash 7
#define E_InvalidHandleReference 8
#define E_InvalidHandleValue 9
#define E_InvalidInterfaceMethod 10
#define E_DuplicateTableEntry 11
#define E_ReadLimitReached 12
#define E_WriteLimitReached 13
#define E_StreamError 14
#define E_ProtocolError 15
#define E_IOError 16
#define E_SystemError 17
#define E_DebugError 18
/* length in bytes of the smallest unsigned integer class holding v (docs/format.md, Integer Encoding Class) */
#define VT_LEN_UINT(v) ((v) <= 0x7fUL ? 1UL : (v) <= 0xffUL ? 2UL : (v) <= 0xffffUL ? 3UL : (v) <= 0xffffffffUL ? 5UL : 9UL)
/* integer classes per docs/format.md; prefix constants come from fmt_prefix.h (generated from the document) */
#include "fmt_prefix.h"
#define VT_PREFIX_UINT(v) ((v) <= 0x7fUL ? (unsigned char)(v) : (v) <= 0xffUL ? FMT_U8 : (v) <= 0xffffUL ? FMT_U16 : (v) <= 0xffffffffUL ? FMT_U32 : FMT_U64)
#define VT_PREFIX_INT(v) (((v) >= -64 && (v) <= 127) ? (unsigned char)(v) : ((v) >= -128 && (v) <= 127) ? FMT_I8 : ((v) >= -32768 && (v) <= 32767) ? FMT_I16 : ((v) >= -2147483648L && (v) <= 2147483647L) ? FMT_I32 : FMT_I64)
#define VT_LEN_INT(v) (((v) >= -64 && (v) <= 127) ? 1UL : ((v) >= -128 && (v) <= 127) ? 2UL : ((v) >= -32768 && (v) <= 32767) ? 3UL : ((v) >= -2147483648L && (v) <= 2147483647L) ? 5UL : 9UL)
/* acceptance sets: POS plus the unsigned classes up to `bytes`; POS, NEG plus the signed classes up to `bytes` */
#define VT_MATCH_UINT(p, bytes) ((p) <= FMT_POS_MAX || (p) == FMT_U8 || ((bytes) >= 2 && (p) == FMT_U16) || ((bytes) >= 4 && (p) == FMT_U32) || ((bytes) >= 8 && (p) == FMT_U64))
#define VT_MATCH_INT(p, bytes) ((p) <= FMT_POS_MAX || (p) >= FMT_NEG_MIN || (p) == FMT_I8 || ((bytes) >= 2 && (p) == FMT_I16) || ((bytes) >= 4 && (p) == FMT_I32) || ((bytes) >= 8 && (p) == FMT_I64))
/* payload length selected by prefix p for an integer of `bytes` bytes, or 0 when the class is not allowed */
#define VT_DECLEN_UINT(p, bytes) ((p) <= FMT_POS_MAX ? 1UL : (p) == FMT_U8 ? 2UL : ((bytes) >= 2 && (p) == FMT_U16) ? 3UL : ((bytes) >= 4 && (p) == FMT_U32) ? 5UL : ((bytes) >= 8 && (p) == FMT_U64) ? 9UL : 0UL)
#define VT_DECLEN_INT(p, bytes) (((p) <= FMT_POS_MAX || (p) >= FMT_NEG_MIN) ? 1UL : (p) == FMT_I8 ? 2UL : ((bytes) >= 2 && (p) == FMT_I16) ? 3UL : ((bytes) >= 4 && (p) == FMT_I32) ? 5UL : ((bytes) >= 8 && (p) == FMT_I64) ? 9UL : 0UL)
/* ghost index used instead of quantifiers over byte ranges (fixed but arbitrary) */
unsigned long vt_k;
#endif
