/* vt_prelude.h — C side of the verification intrinsics (CBMC).  Included by every
 * lowered unit.  With -DVT_NATIVE_C the same lowered C compiles with gcc for the
 * lowering self-test. */
#ifndef VT_PRELUDE_H
#define VT_PRELUDE_H
#include <stddef.h>
#include <string.h>
#include <stdlib.h>

/* constants the compiler folded from builtins (NaN, infinities), by bit pattern */
static inline float vt_f32_from_bits(unsigned int b) { float f; memcpy(&f, &b, sizeof f); return f; }
static inline double vt_f64_from_bits(unsigned long b) { double f; memcpy(&f, &b, sizeof f); return f; }

#ifndef VT_NATIVE_C
unsigned char nondet_uchar(void);
unsigned short nondet_ushort(void);
unsigned int nondet_uint(void);
unsigned long nondet_ulong(void);

/* Every nondet value a harness draws goes through vt_trace_val so that the runner can
 * read the sequence of drawn values off CBMC's counterexample trace, in call order. */
unsigned long vt_trace_val;
unsigned char vt_nd_u8(void) { unsigned char v = nondet_uchar(); vt_trace_val = v; return v; }
unsigned short vt_nd_u16(void) { unsigned short v = nondet_ushort(); vt_trace_val = v; return v; }
unsigned int vt_nd_u32(void) { unsigned int v = nondet_uint(); vt_trace_val = v; return v; }
unsigned long vt_nd_u64(void) { unsigned long v = nondet_ulong(); vt_trace_val = v; return v; }
#define VT_NONDET_DEFINED 1

#define VT_CHECK(c, name) __CPROVER_assert((c), "vt_check: " name)
/* a cover point is an assertion that MUST FAIL: reachable with the condition true */
#define VT_COVER(c, name) __CPROVER_assert(!(c), "vt_cover: " name)
#define VT_ASSUME(c) __CPROVER_assume((c))

/* exactly-sized heap object with arbitrary contents; the bytes are drawn lazily by CBMC
 * (malloc'd memory is nondet), the *size* is what the replay needs and it was drawn by
 * the harness through vt_nd_*.  The contents are read back from the trace by name. */
unsigned char* vt_alloc_bytes(unsigned long n)
{
  unsigned char* p = malloc(n);
  __CPROVER_assume(p != 0);
  return p;
}
void vt_free_bytes(unsigned char* p) { free(p); }
_Bool vt_within(void* p, void* base, unsigned long n)
{
  return __CPROVER_same_object(p, base) && __CPROVER_POINTER_OFFSET(p) >= __CPROVER_POINTER_OFFSET(base) &&
         (unsigned long)(__CPROVER_POINTER_OFFSET(p) - __CPROVER_POINTER_OFFSET(base)) < n;
}
/* POSIX model (assumed contract), see posix_model.h */
#define VT_POSIX_IMPL
#include "posix_model.h"
struct vt_fd_state vt_fd;
VT_POSIX_ACCESSORS
int vt_errno_cell;
void vt_set_errno(int e) { vt_errno_cell = e; }
int* __errno_location(void) { return &vt_errno_cell; }
long read(int fd, void* buf, unsigned long count) { return vt_posix_read(fd, buf, count); }
long write(int fd, const void* buf, unsigned long count) { return vt_posix_write(fd, buf, count); }
int close(int fd) { return vt_posix_close(fd); }
#else
#define __CPROVER_thread_local _Thread_local
unsigned char vt_nd_u8(void);
unsigned short vt_nd_u16(void);
unsigned int vt_nd_u32(void);
unsigned long vt_nd_u64(void);
void vt_native_check(int c, const char* name);
#define VT_CHECK(c, name) vt_native_check((c), name)
#define VT_COVER(c, name) ((void)(c))
void vt_native_assume(int c);
#define VT_ASSUME(c) vt_native_assume((c))
unsigned char* vt_alloc_bytes(unsigned long n);
void vt_free_bytes(unsigned char* p);
_Bool vt_within(void* p, void* base, unsigned long n);
#endif

#endif
