// vt_native.cpp — native side of the verification intrinsics: replays the values CBMC
// chose for the harness's nondet draws against the real, un-lowered C++ code.
//   usage: <unit>.native <harness> <replay-file>
// exit 0: every vt_check held; 1: a vt_check failed; 77: a vt_assume was false (the
// values lie outside the harness precondition); sanitizer exit codes otherwise.
#include <cstdint>
#include <cstdio>
#include <cstdlib>
#include <cstring>
#include <map>
#include <string>
#include <vector>

#include "vt.h"

static std::vector<std::uint64_t> g_vals;
static std::size_t g_next = 0;
static int g_failed = 0;

static std::uint64_t next() {
  if (g_next < g_vals.size()) return g_vals[g_next++];
  g_next++;
  return 0;  // values CBMC left unconstrained
}

extern "C" {
std::uint8_t vt_nd_u8(void) { return static_cast<std::uint8_t>(next()); }
std::uint16_t vt_nd_u16(void) { return static_cast<std::uint16_t>(next()); }
std::uint32_t vt_nd_u32(void) { return static_cast<std::uint32_t>(next()); }
std::uint64_t vt_nd_u64(void) { return next(); }
void vt_assume(bool c) {
  if (!c) {
    std::printf("vt_assume false after %zu draws: input outside the harness precondition\n", g_next);
    std::exit(77);
  }
}
void vt_check(bool c, const char* name) {
  if (!c) {
    std::printf("CHECK FAILED: %s\n", name);
    g_failed = 1;
  }
}
void vt_cover(bool, const char*) {}
bool vt_within(const void* p, const void* base, std::size_t n) {
  const std::uintptr_t a = reinterpret_cast<std::uintptr_t>(p), b = reinterpret_cast<std::uintptr_t>(base);
  return a >= b && a - b < n;
}
std::uint8_t* vt_alloc_bytes(std::size_t n) {
  std::uint8_t* p = static_cast<std::uint8_t*>(std::malloc(n ? n : 1));
  if (n == 0) { std::free(p); p = static_cast<std::uint8_t*>(std::malloc(0)); }
  return p;
}
void vt_free_bytes(std::uint8_t* p) { std::free(p); }
}

// POSIX model for the model descriptors (interposes libc in this executable); every other descriptor
// goes to the kernel.
#include <cerrno>
#include <sys/syscall.h>
#include <unistd.h>
#define VT_POSIX_IMPL
#include "posix_model.h"
extern "C" {
struct vt_fd_state vt_fd;
VT_POSIX_ACCESSORS
void vt_set_errno(int e) { errno = e; }
ssize_t read(int fd, void* buf, size_t count) {
  if (fd == VT_FD_SRC || fd == VT_FD_DST) return vt_posix_read(fd, buf, count);
  return syscall(SYS_read, fd, buf, count);
}
ssize_t write(int fd, const void* buf, size_t count) {
  if (fd == VT_FD_SRC || fd == VT_FD_DST) return vt_posix_write(fd, buf, count);
  return syscall(SYS_write, fd, buf, count);
}
int close(int fd) {
  if (fd == VT_FD_SRC || fd == VT_FD_DST || fd == -1 || (vt_fd.watching && fd == vt_fd.watch_fd)) return vt_posix_close(fd);
  return static_cast<int>(syscall(SYS_close, fd));
}
}

// allocation meter for the native replay: every byte requested from the global operator new
#include <new>
extern "C" { unsigned long vt_native_alloc_bytes = 0; }
void* operator new(std::size_t n) {
  vt_native_alloc_bytes += n;
  void* p = std::malloc(n ? n : 1);
  if (!p) std::abort();
  return p;
}
void operator delete(void* p) noexcept { std::free(p); }
void operator delete(void* p, std::size_t) noexcept { std::free(p); }

namespace vt {
std::map<std::string, void (*)()>& registry() {
  static std::map<std::string, void (*)()> r;
  return r;
}
}  // namespace vt

int main(int argc, char** argv) {
  if (argc < 3) {
    std::printf("usage: %s <harness> <replay-file>\nharnesses:\n", argv[0]);
    for (auto& kv : vt::registry()) std::printf("  %s\n", kv.first.c_str());
    return 2;
  }
  auto it = vt::registry().find(argv[1]);
  if (it == vt::registry().end()) {
    std::printf("unknown harness %s\n", argv[1]);
    return 2;
  }
  FILE* f = std::fopen(argv[2], "r");
  if (!f) return 2;
  char line[4096];
  while (std::fgets(line, sizeof line, f)) {
    if (line[0] == '#' || line[0] == '\n') continue;
    g_vals.push_back(std::strtoull(line, nullptr, 10));
  }
  std::fclose(f);
  std::printf("replaying %s with %zu drawn value(s) on the real C++ code\n", argv[1], g_vals.size());
  it->second();
  std::printf("draws used: %zu; %s\n", g_next, g_failed ? "OBLIGATION FAILED" : "all checks held");
  return g_failed;
}
