// format_spec_std.h — specification codec and generators for the growable containers
// (std::vector, std::basic_string, std::map, std::unordered_map), per docs/format.md
// "Array Container", "Binary Container", "String", "Map Container".  Written against the
// common subset of the real containers and of the verification models (spec/stdmodel).
#ifndef VERIF_SPEC_FORMAT_SPEC_STD_H_
#define VERIF_SPEC_FORMAT_SPEC_STD_H_

#include <map>
#include <string>
#include <unordered_map>
#include <vector>

#include "format_spec.h"

#ifdef VT_NATIVE
extern "C" unsigned long vt_native_alloc_bytes;  // bytes requested from operator new (spec/vt_native.cpp)
#endif

namespace vt {
template <typename T, typename Enable>
struct AllocMeter;
template <typename C>
struct StdAllocMeter {
  static unsigned long now() {
#ifdef VT_NATIVE
    return vt_native_alloc_bytes;
#else
    return g_model_alloc_bytes;
#endif
  }
  // every element / character / entry stored costs at least one input byte; real containers grow geometrically
  static unsigned long per_byte() { return 4 * sizeof(typename C::value_type) + 16; }
};
template <typename T>
struct AllocMeter<std::vector<T>, void> : StdAllocMeter<std::vector<T>> {};
template <typename Ch>
struct AllocMeter<std::basic_string<Ch>, void> : StdAllocMeter<std::basic_string<Ch>> {};
template <typename K, typename T>
struct AllocMeter<std::map<K, T>, void> {
  static unsigned long now() { return StdAllocMeter<std::vector<K>>::now(); }
  static unsigned long per_byte() { return 4 * (sizeof(K) + sizeof(T)) + 64; }
};
template <typename K, typename T>
struct AllocMeter<std::unordered_map<K, T>, void> {
  static unsigned long now() { return StdAllocMeter<std::vector<K>>::now(); }
  static unsigned long per_byte() { return 4 * (sizeof(K) + sizeof(T)) + 64; }
};

// bound on element counts used by the generators and by the specification decoders
// (equal to the model capacity; inputs that need more are outside the explored space)
#ifndef VT_MODEL_CAP
#define VT_MODEL_CAP 3
#endif
#ifndef VT_MODEL_STRCAP
#define VT_MODEL_STRCAP 6
#endif

// std::vector<T>: integral T -> BIN with byte length; otherwise ARY with element count
template <typename T>
struct Fmt<std::vector<T>, std::enable_if_t<std::is_integral<T>::value>> {
  using V = std::vector<T>;
  static void enc(fmt::Out& o, const V& v) {
    fmt::enc_header(o, FMT_BIN, v.size() * sizeof(T));
    for (std::size_t i = 0; i < VT_MODEL_CAP; i++)
      if (i < v.size()) fmt::put_raw(o, v[i]);
  }
  static bool dec(fmt::In& in, V* v) {
    if (!fmt::expect_prefix(in, FMT_BIN)) return false;
    std::uint64_t len;
    if (!fmt::dec_uint(in, 8, &len)) return false;
    if (len % sizeof(T) != 0) return fmt::fail(in, nop::ErrorStatus::InvalidContainerLength);
    if (len > in.n - in.pos) return fmt::fail(in, nop::ErrorStatus::ReadLimitReached);
    vt_assume(len / sizeof(T) <= VT_MODEL_CAP);
    v->clear();
    for (std::size_t i = 0; i < VT_MODEL_CAP; i++)
      if (i < len / sizeof(T)) {
        T t;
        if (!fmt::get_raw(in, &t)) return false;
        v->push_back(t);
      }
    return true;
  }
};
template <typename T>
struct Fmt<std::vector<T>, std::enable_if_t<!std::is_integral<T>::value>> {
  using V = std::vector<T>;
  static void enc(fmt::Out& o, const V& v) {
    fmt::enc_header(o, FMT_ARY, v.size());
    for (std::size_t i = 0; i < VT_MODEL_CAP; i++)
      if (i < v.size()) Fmt<T>::enc(o, v[i]);
  }
  static bool dec(fmt::In& in, V* v) {
    if (!fmt::expect_prefix(in, FMT_ARY)) return false;
    std::uint64_t cnt;
    if (!fmt::dec_uint(in, 8, &cnt)) return false;
    v->clear();
    for (std::size_t i = 0; i < VT_MODEL_CAP + 1; i++)
      if (i < cnt) {
        T t;
        Gen<T>::make(&t);
        if (!Fmt<T>::dec(in, &t)) return false;
        vt_assume(i < VT_MODEL_CAP);
        v->push_back(t);
      }
    vt_assume(cnt <= VT_MODEL_CAP);
    return true;
  }
};
template <typename T>
struct Gen<std::vector<T>> {
  using V = std::vector<T>;
  static void make(V* v) {
    v->clear();
    const std::size_t n = nondet<std::uint8_t>();
    vt_assume(n <= VT_MODEL_CAP);
    for (std::size_t i = 0; i < VT_MODEL_CAP; i++)
      if (i < n) {
        T t;
        Gen<T>::make(&t);
        v->push_back(t);
      }
  }
  static bool eq(const V& a, const V& b) {
    if (a.size() != b.size()) return false;
    bool r = true;
    for (std::size_t i = 0; i < VT_MODEL_CAP; i++)
      if (i < a.size()) r = r && Gen<T>::eq(a[i], b[i]);
    return r;
  }
};

// std::basic_string<C>: STR with the length in bytes, then the characters in direct representation
template <typename C>
struct Fmt<std::basic_string<C>> {
  using S = std::basic_string<C>;
  static void enc(fmt::Out& o, const S& v) {
    fmt::enc_header(o, FMT_STR, v.size() * sizeof(C));
    for (std::size_t i = 0; i < VT_MODEL_STRCAP; i++)
      if (i < v.size()) fmt::put_raw(o, v[i]);
  }
  static bool dec(fmt::In& in, S* v) {
    if (!fmt::expect_prefix(in, FMT_STR)) return false;
    std::uint64_t len;
    if (!fmt::dec_uint(in, 8, &len)) return false;
    if (len % sizeof(C) != 0) return fmt::fail(in, nop::ErrorStatus::InvalidStringLength);
    if (len > in.n - in.pos) return fmt::fail(in, nop::ErrorStatus::ReadLimitReached);
    vt_assume(len / sizeof(C) <= VT_MODEL_STRCAP);
    v->clear();
    for (std::size_t i = 0; i < VT_MODEL_STRCAP; i++)
      if (i < len / sizeof(C)) {
        C c;
        if (!fmt::get_raw(in, &c)) return false;
        v->push_back(c);
      }
    return true;
  }
};
template <typename C>
struct Gen<std::basic_string<C>> {
  using S = std::basic_string<C>;
  static void make(S* v) {
    v->clear();
    const std::size_t n = nondet<std::uint8_t>();
    vt_assume(n <= VT_MODEL_STRCAP);
    for (std::size_t i = 0; i < VT_MODEL_STRCAP; i++)
      if (i < n) v->push_back(nondet<C>());
  }
  static bool eq(const S& a, const S& b) {
    if (a.size() != b.size()) return false;
    bool r = true;
    for (std::size_t i = 0; i < VT_MODEL_STRCAP; i++)
      if (i < a.size()) r = r && a[i] == b[i];
    return r;
  }
};

// maps: MAP with the number of entries, then key / value pairs in the container's own order
template <typename M>
struct MapFmt {
  using K = typename M::key_type;
  using T = typename M::mapped_type;
  static void enc(fmt::Out& o, const M& v) {
    fmt::enc_header(o, FMT_MAP, v.size());
    auto it = v.begin();
    for (std::size_t i = 0; i < VT_MODEL_CAP; i++)
      if (i < v.size()) {
        const K k = it->first;
        Fmt<K>::enc(o, k);
        Fmt<T>::enc(o, it->second);
        ++it;
      }
  }
  static bool dec(fmt::In& in, M* v) {
    if (!fmt::expect_prefix(in, FMT_MAP)) return false;
    std::uint64_t cnt;
    if (!fmt::dec_uint(in, 8, &cnt)) return false;
    v->clear();
    for (std::size_t i = 0; i < VT_MODEL_CAP + 1; i++)
      if (i < cnt) {
        std::pair<K, T> e;
        Gen<K>::make(&e.first);
        Gen<T>::make(&e.second);
        if (!Fmt<K>::dec(in, &e.first) || !Fmt<T>::dec(in, &e.second)) return false;
        vt_assume(i < VT_MODEL_CAP);
        v->emplace(std::move(e));
      }
    vt_assume(cnt <= VT_MODEL_CAP);
    return true;
  }
};
template <typename M>
struct MapGen {
  using K = typename M::key_type;
  using T = typename M::mapped_type;
  static void make(M* v) {
    v->clear();
    const std::size_t n = nondet<std::uint8_t>();
    vt_assume(n <= VT_MODEL_CAP);
    for (std::size_t i = 0; i < VT_MODEL_CAP; i++)
      if (i < n) {
        std::pair<K, T> e;
        Gen<K>::make(&e.first);
        Gen<T>::make(&e.second);
        v->emplace(std::move(e));
      }
  }
  // same set of key/value pairs (independent of iteration order: two unordered_maps with equal contents may
  // iterate differently)
  static bool eq(const M& a, const M& b) {
    if (a.size() != b.size()) return false;
    bool r = true;
    auto ia = a.begin();
    for (std::size_t i = 0; i < VT_MODEL_CAP; i++)
      if (i < a.size()) {
        bool found = false;
        auto ib = b.begin();
        for (std::size_t j = 0; j < VT_MODEL_CAP; j++)
          if (j < b.size()) {
            if (Gen<K>::eq(ia->first, ib->first) && Gen<T>::eq(ia->second, ib->second)) found = true;
            ++ib;
          }
        r = r && found;
        ++ia;
      }
    return r;
  }
};
template <typename K, typename T>
struct Fmt<std::map<K, T>> : MapFmt<std::map<K, T>> {};
template <typename K, typename T>
struct Gen<std::map<K, T>> : MapGen<std::map<K, T>> {};
template <typename K, typename T>
struct Fmt<std::unordered_map<K, T>> : MapFmt<std::unordered_map<K, T>> {};
template <typename K, typename T>
struct Gen<std::unordered_map<K, T>> : MapGen<std::unordered_map<K, T>> {};

}  // namespace vt

#endif  // VERIF_SPEC_FORMAT_SPEC_STD_H_
