// Verification models of the growable std containers (DESIGN.md §3.2 item 5): ASSUMED
// contracts on a dependency, used only when lowering for CBMC (the native replay builds
// against the real libstdc++).  Fixed capacity VT_MODEL_CAP elements; growing beyond it
// ends the path (vt_assume(false)) — results that depend on them are bounded by that
// capacity and labelled so.  Ghost vt_model_alloc_bytes counts what a real container would
// have to allocate at least (resize: n * sizeof(T); push_back/emplace: sizeof(T) each).
#ifndef VT_MODEL_COMMON_H
#define VT_MODEL_COMMON_H
#include <cstddef>
#include <functional>
#include <memory>
#include <utility>
extern "C" void vt_assume(bool condition);
#ifndef VT_MODEL_CAP
#define VT_MODEL_CAP 3
#endif
#ifndef VT_MODEL_STRCAP
#define VT_MODEL_STRCAP 6
#endif
namespace vt {
static unsigned long g_model_alloc_bytes = 0;
}
#ifndef VT_GHOST_ENSURE
#define VT_GHOST_ENSURE
namespace vt {
// ghost: bytes the last successful Ensure() on the reference reader vouched for, and resize() calls of the std
// models that asked for more than that (C02: no allocation sized by an unchecked length field)
static unsigned long g_ensured_bytes = 0;
static unsigned long g_unensured_resize = 0;
}
#endif

#endif
