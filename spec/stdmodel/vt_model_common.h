// Verification models of the growable std containers (DESIGN.md §3.2 item 5): ASSUMED
// contracts on a dependency, used only when lowering for CBMC (the native replay builds
// against the real libstdc++).  Fixed capacity VT_MODEL_CAP elements; growing beyond it
// ends the path (vt_assume(false)) — results that depend on them are bounded by that
// capacity and labelled so.  Ghost vt_model_alloc_bytes counts what a real container would
// have to allocate at least (resize: n * sizeof(T); push_back/emplace: sizeof(T) each).
#ifndef VT_MODEL_COMMON_H
#define VT_MODEL_COMMON_H
#include <cstddef>
#include <functional>
#include <memory>
#include <utility>
extern "C" void vt_assume(bool condition);
#ifndef VT_MODEL_CAP
#define VT_MODEL_CAP 3
#endif
#ifndef VT_MODEL_STRCAP
#define VT_MODEL_STRCAP 6
#endif
namespace vt {
static unsigned long g_model_alloc_bytes = 0;
}
#endif
