// vt.h — the four verification intrinsics used by every harness unit.
//
// The same unit compiles two ways:
//   * lowered by tools/nop2c to C and checked by CBMC: vt_nd_* are CBMC nondet
//     sources (spec/vt_prelude.h), vt_assume/vt_check/vt_cover become
//     __CPROVER_assume / __CPROVER_assert / __CPROVER_cover with the literal name;
//   * natively with g++ against spec/vt_native.cpp: vt_nd_* read the next value
//     from a replay file, vt_assume(false) ends the replay as "outside
//     precondition", vt_check(false) prints the failed obligation.
#ifndef VERIF_SPEC_VT_H_
#define VERIF_SPEC_VT_H_

#include <array>
#include <limits>
#include <new>
#include <cstddef>
#include <cstdint>
#include <cstring>
#ifdef VT_NATIVE
#include <map>
#include <string>
#endif

extern "C" {
std::uint8_t vt_nd_u8(void);
std::uint16_t vt_nd_u16(void);
std::uint32_t vt_nd_u32(void);
std::uint64_t vt_nd_u64(void);
void vt_assume(bool condition);
void vt_check(bool condition, const char* obligation);
void vt_cover(bool condition, const char* name);
// A heap object of exactly n bytes with arbitrary contents (CBMC: malloc, so
// that one byte past the end is an out-of-bounds access; native: malloc + bytes
// from the replay file, so that ASan sees the same bound).
std::uint8_t* vt_alloc_bytes(std::size_t n);
void vt_free_bytes(std::uint8_t* p);
// Is p inside the n-byte object starting at base?  (CBMC: same object and offset range, without comparing pointers
// into different objects; native: address range.)
bool vt_within(const void* p, const void* base, std::size_t n);
}

namespace vt {

template <typename T, typename Enable = void>
struct Nondet;

template <typename T>
inline T nondet() {
  return Nondet<T>::Get();
}

template <>
struct Nondet<bool> {
  static bool Get() { return (vt_nd_u8() & 1) != 0; }
};
#define VT_ND_INT(T, F)                              \
  template <>                                        \
  struct Nondet<T> {                                 \
    static T Get() { return static_cast<T>(F()); }   \
  };
VT_ND_INT(char, vt_nd_u8)
VT_ND_INT(signed char, vt_nd_u8)
VT_ND_INT(unsigned char, vt_nd_u8)
VT_ND_INT(short, vt_nd_u16)
VT_ND_INT(unsigned short, vt_nd_u16)
VT_ND_INT(int, vt_nd_u32)
VT_ND_INT(unsigned int, vt_nd_u32)
VT_ND_INT(long, vt_nd_u64)
VT_ND_INT(unsigned long, vt_nd_u64)
VT_ND_INT(long long, vt_nd_u64)
VT_ND_INT(unsigned long long, vt_nd_u64)
VT_ND_INT(wchar_t, vt_nd_u32)
VT_ND_INT(char16_t, vt_nd_u16)
VT_ND_INT(char32_t, vt_nd_u32)
#undef VT_ND_INT

// Floating point: every bit pattern, NaN payloads included.
template <>
struct Nondet<float> {
  static float Get() {
    std::uint32_t bits = vt_nd_u32();
    float f;
    std::memcpy(&f, &bits, sizeof f);
    return f;
  }
};
template <>
struct Nondet<double> {
  static double Get() {
    std::uint64_t bits = vt_nd_u64();
    double f;
    std::memcpy(&f, &bits, sizeof f);
    return f;
  }
};

inline std::uint32_t bits_of(float f) {
  std::uint32_t b;
  std::memcpy(&b, &f, sizeof b);
  return b;
}
inline std::uint64_t bits_of(double f) {
  std::uint64_t b;
  std::memcpy(&b, &f, sizeof b);
  return b;
}

inline void assume(bool c) { vt_assume(c); }

#ifdef VT_NATIVE
std::map<std::string, void (*)()>& registry();
struct Registrar {
  Registrar(const char* name, void (*fn)()) { registry()[name] = fn; }
};
#define VT_HARNESS(name)                                   \
  extern "C" void name(void);                              \
  static ::vt::Registrar vt_reg_##name(#name, &name);      \
  extern "C" void name(void)
#else
#define VT_HARNESS(name)      \
  extern "C" void name(void); \
  extern "C" void name(void)
#endif

}  // namespace vt

#endif  // VERIF_SPEC_VT_H_
