// spec_io.h — the abstract byte source / byte sink of DESIGN.md §3.4.
//
// vt::SpecReader / vt::SpecWriter are the *reference* Reader / Writer: the documented
// interface of docs/getting-started.md ("Reader/Writer") made precise, plus a fault
// plan (the fail_at-th primitive call fails with fail_code) and ghost bookkeeping
// (calls, failed).  They are used three ways:
//   * with their bodies, as the reader/writer the codec functions are proved over;
//   * replaced by their contracts (units/*.spec), as an arbitrary wrapped reader/writer
//     that may succeed or fail at any call (C16);
//   * as the oracle every shipped reader/writer is compared against (C17).
// Their bodies are proved against those same contracts (jobs spec_reader_*/spec_writer_*).
#ifndef VERIF_SPEC_SPEC_IO_H_
#define VERIF_SPEC_SPEC_IO_H_

#include <array>
#include <cstddef>
#include <cstdint>
#include <cstring>

#include <nop/base/encoding.h>
#include <nop/base/handle.h>
#include <nop/status.h>

#ifndef VT_GHOST_ENSURE
#define VT_GHOST_ENSURE
namespace vt {
// ghost: bytes the last successful Ensure() on the reference reader vouched for, and resize() calls of the std
// models that asked for more than that (C02: no allocation sized by an unchecked length field)
static unsigned long g_ensured_bytes = 0;
static unsigned long g_unensured_resize = 0;
}
#endif

namespace vt {

struct SpecReader {
  const std::uint8_t* src;  // the source bytes
  std::size_t len;          // how many there are
  std::size_t pos;          // how many have been consumed
  int failed;               // 0, or the ErrorStatus the first failing call returned
  std::size_t calls;        // primitive calls made so far
  std::size_t fail_at;      // fault plan: the call with this 0-based index fails ...
  int fail_code;            // ... with this ErrorStatus (1..18)
  std::size_t after_fail;   // calls made after a call had already failed (C10: must stay 0)

  nop::Status<void> Fail(int code) {
    failed = code;
    return static_cast<nop::ErrorStatus>(code);
  }
  bool Fault() {
    const bool f = calls == fail_at;
    calls += 1;
    if (failed != 0) after_fail += 1;
    return f;
  }
  void Init(const std::uint8_t* bytes, std::size_t length) {
    g_ensured_bytes = 0;
    g_unensured_resize = 0;
    src = bytes;
    len = length;
    pos = 0;
    failed = 0;
    calls = 0;
    fail_at = ~static_cast<std::size_t>(0);
    fail_code = static_cast<int>(nop::ErrorStatus::IOError);
    after_fail = 0;
  }

  nop::Status<void> Ensure(std::size_t size) {
    if (Fault()) return Fail(fail_code);
    if (size > len - pos) return Fail(static_cast<int>(nop::ErrorStatus::ReadLimitReached));
    g_ensured_bytes = size;
    return {};
  }
  nop::Status<void> Read(std::uint8_t* byte) {
    if (Fault()) return Fail(fail_code);
    if (pos >= len) return Fail(static_cast<int>(nop::ErrorStatus::ReadLimitReached));
    *byte = src[pos];
    pos += 1;
    return {};
  }
  template <typename T>
  nop::Status<void> Read(T* begin, T* end) {
    if (Fault()) return Fail(fail_code);
    const std::size_t n = static_cast<std::size_t>(end - begin) * sizeof(T);
    if (n > len - pos) return Fail(static_cast<int>(nop::ErrorStatus::ReadLimitReached));
    std::memcpy(begin, src + pos, n);
    pos += n;
    return {};
  }
  nop::Status<void> Skip(std::size_t padding_bytes) {
    if (Fault()) return Fail(fail_code);
    if (padding_bytes > len - pos) return Fail(static_cast<int>(nop::ErrorStatus::ReadLimitReached));
    pos += padding_bytes;
    return {};
  }
};

struct SpecWriter {
  std::uint8_t* dst;    // the sink
  std::size_t cap;      // its capacity
  std::size_t pos;      // bytes produced so far
  int failed;
  std::size_t calls;
  std::size_t fail_at;
  int fail_code;
  std::size_t writes;   // calls other than Prepare (C10: a failed Prepare writes nothing)
  std::size_t after_fail;

  nop::Status<void> Fail(int code) {
    failed = code;
    return static_cast<nop::ErrorStatus>(code);
  }
  bool Fault() {
    const bool f = calls == fail_at;
    calls += 1;
    if (failed != 0) after_fail += 1;
    return f;
  }
  void Init(std::uint8_t* bytes, std::size_t capacity) {
    dst = bytes;
    cap = capacity;
    pos = 0;
    failed = 0;
    calls = 0;
    fail_at = ~static_cast<std::size_t>(0);
    fail_code = static_cast<int>(nop::ErrorStatus::IOError);
    writes = 0;
    after_fail = 0;
  }

  nop::Status<void> Prepare(std::size_t size) {
    if (Fault()) return Fail(fail_code);
    if (size > cap - pos) return Fail(static_cast<int>(nop::ErrorStatus::WriteLimitReached));
    return {};
  }
  nop::Status<void> Write(std::uint8_t byte) {
    writes += 1;
    if (Fault()) return Fail(fail_code);
    if (pos >= cap) return Fail(static_cast<int>(nop::ErrorStatus::WriteLimitReached));
    dst[pos] = byte;
    pos += 1;
    return {};
  }
  template <typename T>
  nop::Status<void> Write(const T* begin, const T* end) {
    writes += 1;
    if (Fault()) return Fail(fail_code);
    const std::size_t n = static_cast<std::size_t>(end - begin) * sizeof(T);
    if (n > cap - pos) return Fail(static_cast<int>(nop::ErrorStatus::WriteLimitReached));
    std::memcpy(dst + pos, begin, n);
    pos += n;
    return {};
  }
  nop::Status<void> Skip(std::size_t padding_bytes, std::uint8_t padding_value = 0x00) {
    writes += 1;
    if (Fault()) return Fail(fail_code);
    if (padding_bytes > cap - pos) return Fail(static_cast<int>(nop::ErrorStatus::WriteLimitReached));
    std::memset(dst + pos, padding_value, padding_bytes);
    pos += padding_bytes;
    return {};
  }
};

}  // namespace vt

#endif  // VERIF_SPEC_SPEC_IO_H_
