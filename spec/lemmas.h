// lemmas.h — the lemma harness templates over the real Serializer / Deserializer and the
// shipped readers / writers.  Each lemma is an ordinary C++ function that uses only the
// public API plus the vt intrinsics; it is lowered for CBMC and compiled natively for
// replay.  T ranges over INST (units/codec_*.cpp), W / R over the reader / writer kits.
#ifndef VERIF_SPEC_LEMMAS_H_
#define VERIF_SPEC_LEMMAS_H_

#include <nop/base/serializer.h>
#include <nop/utility/bounded_reader.h>
#include <nop/utility/bounded_writer.h>
#include <nop/utility/buffer_reader.h>
#include <nop/utility/buffer_writer.h>
#include <nop/utility/constexpr_buffer_writer.h>
#include <nop/utility/pedantic_buffer_reader.h>
#include <nop/utility/pedantic_buffer_writer.h>

#include "format_spec.h"
#include "spec_io.h"
#include "vt.h"

namespace vt {

// allocation meter (C02: a decode never allocates more than a type-dependent constant multiple of the input
// length).  Types without dynamic storage report 0; spec/format_spec_std.h specialises it for the growable
// containers (model: ghost counter of the std models; native replay: bytes requested from operator new).
template <typename T, typename Enable = void>
struct AllocMeter {
  static unsigned long now() { return 0; }
  static unsigned long per_byte() { return 0; }
};

// ------------------------------------------------------------------------------ kits
template <typename R>
struct ReaderKit;
template <>
struct ReaderKit<SpecReader> {
  using Reader = SpecReader;
  SpecReader r;
  void init(const std::uint8_t* b, std::size_t n) { r.Init(b, n); }
  Reader* reader() { return &r; }
  std::size_t consumed() { return r.pos; }
};
template <>
struct ReaderKit<nop::BufferReader> {
  using Reader = nop::BufferReader;
  nop::BufferReader r;
  std::size_t total;
  void init(const std::uint8_t* b, std::size_t n) {
    r = nop::BufferReader(b, n);
    total = n;
  }
  Reader* reader() { return &r; }
  std::size_t consumed() { return total - r.remaining(); }
};
template <>
struct ReaderKit<nop::PedanticBufferReader> {
  using Reader = nop::PedanticBufferReader;
  nop::PedanticBufferReader r;
  std::size_t total;
  void init(const std::uint8_t* b, std::size_t n) {
    r = nop::PedanticBufferReader(b, n);
    total = n;
  }
  Reader* reader() { return &r; }
  std::size_t consumed() { return total - r.remaining(); }
};
// BoundedReader whose limit is the whole input, over an inner reader that has MORE bytes
// than the limit only in the sense of capacity bookkeeping: the inner buffer is exactly n.
template <typename Inner>
struct ReaderKit<nop::BoundedReader<Inner>> {
  using Reader = nop::BoundedReader<Inner>;
  Inner inner;
  Reader r;
  void init(const std::uint8_t* b, std::size_t n) {
    inner = Inner(b, n);
    r = Reader(&inner, n);
  }
  Reader* reader() { return &r; }
  std::size_t consumed() { return r.size(); }
};

template <typename W>
struct WriterKit;
template <>
struct WriterKit<SpecWriter> {
  using Writer = SpecWriter;
  SpecWriter w;
  void init(std::uint8_t* b, std::size_t n) { w.Init(b, n); }
  Writer* writer() { return &w; }
  std::size_t size() { return w.pos; }
};
#define VT_BUFFER_WRITER_KIT(W)                                    \
  template <>                                                      \
  struct WriterKit<nop::W> {                                       \
    using Writer = nop::W;                                         \
    nop::W w;                                                      \
    void init(std::uint8_t* b, std::size_t n) { w = nop::W(b, n); } \
    Writer* writer() { return &w; }                                \
    std::size_t size() { return w.size(); }                        \
  };
VT_BUFFER_WRITER_KIT(BufferWriter)
VT_BUFFER_WRITER_KIT(PedanticBufferWriter)
VT_BUFFER_WRITER_KIT(ConstexprBufferWriter)
template <typename Inner>
struct WriterKit<nop::BoundedWriter<Inner>> {
  using Writer = nop::BoundedWriter<Inner>;
  Inner inner;
  Writer w;
  void init(std::uint8_t* b, std::size_t n) {
    inner = Inner(b, n);
    w = Writer(&inner, n);
  }
  Writer* writer() { return &w; }
  std::size_t size() { return w.size(); }
};

// BoundedWriter whose own limit is LARGER than what the wrapped writer can take: the wrapped writer's
// Prepare is then the only thing standing between Write and the end of the buffer
template <typename Inner>
struct LooseBounded {};
template <typename Inner>
struct WriterKit<LooseBounded<Inner>> {
  using Writer = nop::BoundedWriter<Inner>;
  Inner inner;
  Writer w;
  void init(std::uint8_t* b, std::size_t n) {
    inner = Inner(b, n);
    w = Writer(&inner, n + 16);
  }
  Writer* writer() { return &w; }
  std::size_t size() { return w.size(); }
};

// an exactly-sized heap buffer with arbitrary (replayable) contents
template <std::size_t MAXN>
inline std::uint8_t* arbitrary_bytes(std::size_t n) {
  std::uint8_t* buf = vt_alloc_bytes(n);
  for (std::size_t i = 0; i < MAXN; i++)
    if (i < n) buf[i] = nondet<std::uint8_t>();
  return buf;
}

// the same contents in a fixed-size array (logical length n <= MAXN).  Used where the exactly-sized heap
// object makes the formula intractable (tables); an access beyond n but inside the array is then not a CBMC
// pointer failure — that the readers never go beyond their size_ is their own contract (C17 jobs).
template <std::size_t MAXN>
inline std::uint8_t* arbitrary_bytes_fixed(std::uint8_t (&store)[MAXN], std::size_t n) {
  for (std::size_t i = 0; i < MAXN; i++) store[i] = (i < n) ? nondet<std::uint8_t>() : static_cast<std::uint8_t>(0);
  return store;
}

// ---------------------------------------------------------------- C03 / C06: the encoder
// Write(v) emits exactly the specification encoding; GetSize(v) equals its length (for
// handle-free T); writing the same object again produces the same bytes.
template <typename T>
void lemma_encode() {
  T v;
  Gen<T>::make(&v);
  std::uint8_t buf[2 * fmt::kCap];
  WriterKit<SpecWriter> k;
  k.init(buf, sizeof buf);
  nop::Serializer<SpecWriter*> s{k.writer()};
  const std::size_t size = s.GetSize(v);
  auto st = s.Write(v);
  fmt::Out o;
  fmt::init(o);
  Fmt<T>::enc(o, v);
  vt_assume(o.n <= fmt::kCap);
  vt_check(static_cast<bool>(st), "Write succeeds with enough room");
  vt_check(k.size() == o.n, "number of bytes written == length of the documented encoding");
  vt_check(size == o.n, "GetSize(v) == number of bytes Write(v) emits (handle-free type)");
  const std::size_t i = nondet<std::uint8_t>();
  vt_assume(i < o.n);
  vt_check(buf[i] == o.b[i], "every byte written == the byte docs/format.md prescribes");
  auto st2 = s.Write(v);
  vt_check(static_cast<bool>(st2) && k.size() == 2 * o.n, "second write of the same object succeeds with the same length");
  vt_check(buf[o.n + i] == o.b[i], "writing the same object twice produces the same bytes");
  vt_cover(true, "encode lemma end");
}

// ---------------------------------------------------------- C04 / C02 / C11: the decoder
// Over an exactly-sized buffer of arbitrary bytes: accept iff the specification decoder
// accepts, same value, same number of bytes consumed; the destination starts in an arbitrary
// prior state.  Memory safety of every access inside the lowered library code is CBMC's
// own obligation (pointer / bounds / overflow checks).
template <typename T, typename R, std::size_t MAXN, bool EXACT_CATEGORY, bool HEAP = true>
void lemma_decode() {
  const std::size_t n = nondet<std::uint8_t>();
  vt_assume(n <= MAXN);
  std::uint8_t store[MAXN];
  std::uint8_t* buf = HEAP ? arbitrary_bytes<MAXN>(n) : arbitrary_bytes_fixed<MAXN>(store, n);
  ReaderKit<R> k;
  k.init(buf, n);
  T out;
  Gen<T>::make(&out);  // arbitrary prior contents
  nop::Deserializer<R*> d{k.reader()};
  const unsigned long alloc0 = AllocMeter<T>::now();
  auto st = d.Read(&out);
  const unsigned long allocated = AllocMeter<T>::now() - alloc0;
  vt_check(allocated <= AllocMeter<T>::per_byte() * n + (AllocMeter<T>::per_byte() ? 64 : 0), "(ghost) a decode allocates at most a type-dependent constant multiple of the input length");
  // only the reference reader records what Ensure() vouched for
  if (std::is_same<R, SpecReader>::value)
    vt_check(g_unensured_resize == 0, "(ghost) no container is resized to a length the reader has not vouched for (Ensure before resize)");
  fmt::In in;
  fmt::init(in, buf, n);
  T ref;
  Gen<T>::make(&ref);
  const bool accept = Fmt<T>::dec(in, &ref);
  vt_check(static_cast<bool>(st) == accept, "Read succeeds exactly on the documented language");
  if (accept) {
    vt_check(Gen<T>::eq(out, ref), "decoded value == the value the bytes denote (independent of the destination's prior contents)");
    vt_check(k.consumed() == in.pos, "consumes exactly the encoding");
  } else if (EXACT_CATEGORY) {
    vt_check(static_cast<int>(st.error()) == in.err, "error category is the one named for the defect");
  }
  vt_cover(accept, "an accepted input exists");
  vt_cover(!accept && n == MAXN, "a rejected full-length input exists");
  if (HEAP) vt_free_bytes(buf);
}

// ------------------------------------------------------------------------- C01: round trip
template <typename T, typename W, typename R>
void lemma_roundtrip() {
  T v1, v2;
  Gen<T>::make(&v1);
  Gen<T>::make(&v2);
  std::uint8_t buf[2 * fmt::kCap];
  WriterKit<W> wk;
  wk.init(buf, sizeof buf);
  nop::Serializer<typename WriterKit<W>::Writer*> s{wk.writer()};
  auto w1 = s.Write(v1);
  const std::size_t len1 = wk.size();
  auto w2 = s.Write(v2);
  const std::size_t len2 = wk.size();
  vt_check(static_cast<bool>(w1) && static_cast<bool>(w2), "both writes succeed");
  vt_assume(len2 <= sizeof buf);
  ReaderKit<R> rk;
  rk.init(buf, len2);
  nop::Deserializer<typename ReaderKit<R>::Reader*> d{rk.reader()};
  T r1, r2;
  Gen<T>::make(&r1);
  Gen<T>::make(&r2);
  auto s1 = d.Read(&r1);
  vt_check(static_cast<bool>(s1), "first read succeeds");
  vt_check(Gen<T>::eq(r1, v1), "first value read back == value written");
  vt_check(rk.consumed() == len1, "first read consumes exactly the bytes of the first write");
  auto s2 = d.Read(&r2);
  vt_check(static_cast<bool>(s2), "second read succeeds");
  vt_check(Gen<T>::eq(r2, v2), "second value read back == value written");
  vt_check(rk.consumed() == len2, "second read consumes exactly the rest");
  vt_cover(true, "round trip lemma end");
}

// ------------------------------------------------------------------------ C05: truncation
// Any byte string the specification decoder accepts (so: every valid encoding, minimal or
// not, with or without padding), cut at any k < its length, is rejected by reader R.
template <typename T, typename R, std::size_t MAXN, bool HEAP = true>
void lemma_truncate() {
  const std::size_t n = nondet<std::uint8_t>();
  vt_assume(n <= MAXN);
  std::uint8_t store[MAXN], store_cut[MAXN];
  std::uint8_t* whole = HEAP ? arbitrary_bytes<MAXN>(n) : arbitrary_bytes_fixed<MAXN>(store, n);
  fmt::In in;
  fmt::init(in, whole, n);
  T ref;
  Gen<T>::make(&ref);
  vt_assume(Fmt<T>::dec(in, &ref));
  const std::size_t len = in.pos;
  const std::size_t k = nondet<std::uint8_t>();
  vt_assume(k < len);
  std::uint8_t* cut = HEAP ? vt_alloc_bytes(k) : store_cut;
  for (std::size_t i = 0; i < MAXN; i++)
    if (i < k) cut[i] = whole[i];
  ReaderKit<R> rk;
  rk.init(cut, k);
  nop::Deserializer<typename ReaderKit<R>::Reader*> d{rk.reader()};
  T out;
  Gen<T>::make(&out);
  auto st = d.Read(&out);
  vt_check(!static_cast<bool>(st), "a strict prefix of a valid encoding is rejected");
  vt_cover(k + 1 == len, "cut just before the last byte reached");
  vt_cover(k == 0 && len > 0, "empty prefix reached");
  if (HEAP) {
    vt_free_bytes(cut);
    vt_free_bytes(whole);
  }
}

// ------------------------------------------------------ C06: GetSize and buffer capacity
template <typename T, typename W, std::size_t MAXN>
void lemma_capacity() {
  T v;
  Gen<T>::make(&v);
  const std::size_t cap = nondet<std::uint8_t>();
  vt_assume(cap <= MAXN + 1);
  std::uint8_t* buf = vt_alloc_bytes(cap);
  WriterKit<W> wk;
  wk.init(buf, cap);
  nop::Serializer<typename WriterKit<W>::Writer*> s{wk.writer()};
  const std::size_t size = s.GetSize(v);
  auto st = s.Write(v);
  if (cap >= size) {
    vt_check(static_cast<bool>(st), "Write into a buffer of at least GetSize bytes never fails for lack of space");
    vt_check(wk.size() == size, "bytes written == GetSize (handle-free type)");
  } else {
    vt_check(st.error() == nop::ErrorStatus::WriteLimitReached, "Write into a smaller buffer returns WriteLimitReached");
    vt_check(wk.size() == 0, "a refused Write writes nothing");
  }
  vt_cover(cap == size, "exactly-fitting buffer reached");
  vt_cover(cap + 1 == size, "one-byte-short buffer reached");
  vt_free_bytes(buf);
}

// ------------------------------------------------------------------- C10: fault injection
template <typename T>
void lemma_fault_write() {
  T v;
  Gen<T>::make(&v);
  std::uint8_t buf[fmt::kCap];
  SpecWriter w;
  w.Init(buf, sizeof buf);
  w.fail_at = nondet<std::uint8_t>();
  w.fail_code = nondet<std::uint8_t>();
  vt_assume(w.fail_code >= 1 && w.fail_code <= 18);
  nop::Serializer<SpecWriter*> s{&w};
  auto st = s.Write(v);
  vt_check(w.after_fail == 0, "no further calls on the writer after one failed");
  if (w.failed != 0) {
    vt_check(static_cast<int>(st.error()) == w.failed, "the writer's error is returned verbatim");
    if (w.fail_at == 0) vt_check(w.writes == 0, "a Write whose Prepare fails writes nothing");
  } else {
    vt_check(static_cast<bool>(st), "no I/O error: the operation succeeds");
  }
  vt_check(!static_cast<bool>(st) || w.failed == 0, "success is never reported after a failed I/O call");
  vt_cover(w.failed != 0 && w.calls > 1, "a fault after the first call reached");
  vt_cover(w.failed == 0, "fault-free run reached");
}

template <typename T, std::size_t MAXN, bool HEAP = true>
void lemma_fault_read() {
  const std::size_t n = nondet<std::uint8_t>();
  vt_assume(n <= MAXN);
  std::uint8_t store[MAXN];
  std::uint8_t* buf = HEAP ? arbitrary_bytes<MAXN>(n) : arbitrary_bytes_fixed<MAXN>(store, n);
  SpecReader r;
  r.Init(buf, n);
  r.fail_at = nondet<std::uint8_t>();
  r.fail_code = nondet<std::uint8_t>();
  vt_assume(r.fail_code >= 1 && r.fail_code <= 18);
  nop::Deserializer<SpecReader*> d{&r};
  T out;
  Gen<T>::make(&out);
  auto st = d.Read(&out);
  vt_check(r.after_fail == 0, "no further calls on the reader after one failed");
  if (r.failed != 0) vt_check(static_cast<int>(st.error()) == r.failed, "the reader's error is returned verbatim");
  vt_check(!static_cast<bool>(st) || r.failed == 0, "success is never reported after a failed I/O call");
  vt_cover(r.failed != 0, "a failing run reached");
  vt_cover(static_cast<bool>(st), "successful read reached");
  if (HEAP) vt_free_bytes(buf);
}

}  // namespace vt

#endif  // VERIF_SPEC_LEMMAS_H_
