// stream_model.h — the istream / ostream interface StreamReader / StreamWriter use.
//   * lowered for CBMC: a MODEL written from [istream.unformatted] / [ostream.unformatted]
//     and [ios.base] (an ASSUMED contract on the dependency): read() extracts up to n
//     characters and sets eofbit|failbit when fewer are available; a stream that is not
//     good() does nothing but set failbit; seekg clears eofbit, does nothing if fail(), and
//     on a position outside the sequence either fails with failbit (stringbuf) or succeeds
//     (filebuf) — which of the two is a symbolic choice made when the stream is created;
//     ignore(n) discards up to n characters and sets eofbit when the data ends first;
//     a fault plan sets badbit at a chosen call.
//   * natively (replay): a thin adapter over the REAL std::stringstream or, for the
//     file-like choice, a real std::fstream on a temporary file, so refutations that depend
//     on the model are replayed against the real library.
#ifndef VERIF_SPEC_STREAM_MODEL_H_
#define VERIF_SPEC_STREAM_MODEL_H_

#include <cstddef>
#include <cstdint>
#include <ios>

#ifdef VT_NATIVE
#include <cstdio>
#include <fstream>
#include <sstream>
#include <string>
#endif

namespace vt {

#ifndef VT_NATIVE
struct SpecIStream {
  using char_type = char;
  const std::uint8_t* src;
  std::size_t len, pos;
  bool eofbit, failbit, badbit;
  bool file_like;        // seeking outside the sequence succeeds (filebuf) instead of failing (stringbuf)
  std::size_t calls, bad_at;

  SpecIStream(const std::uint8_t* b, std::size_t n, bool file, std::size_t bad_call)
      : src(b), len(n), pos(0), eofbit(false), failbit(false), badbit(false), file_like(file), calls(0), bad_at(bad_call) {}
  bool good() const { return !eofbit && !failbit && !badbit; }
  bool eof() const { return eofbit; }
  bool fail() const { return failbit || badbit; }
  bool bad() const { return badbit; }
  bool Fault() {
    const bool f = calls == bad_at;
    calls += 1;
    if (f) badbit = true;
    return f;
  }
  SpecIStream& read(char* s, std::streamsize n) {
    if (Fault()) return *this;
    if (!good()) { failbit = true; return *this; }
    const std::size_t want = static_cast<std::size_t>(n);
    const std::size_t avail = pos <= len ? len - pos : 0;
    const std::size_t take = want <= avail ? want : avail;
    for (std::size_t i = 0; i < take; i++) s[i] = static_cast<char>(src[pos + i]);
    pos += take;
    if (take < want) { eofbit = true; failbit = true; }
    return *this;
  }
  // unformatted single-character input ([istream.unformatted]): no character available sets eofbit|failbit
  // and returns traits::eof(); otherwise traits::to_int_type(c), i.e. the byte as a non-negative int
  using traits_type = std::char_traits<char>;
  using int_type = int;
  int get() {
    if (Fault()) return -1;
    if (!good()) { failbit = true; return -1; }
    if (pos < len) { const int c = static_cast<int>(src[pos]); pos += 1; return c; }
    eofbit = true; failbit = true;
    return -1;
  }
  SpecIStream& get(char& c) {
    const int v = get();
    if (v != -1) c = static_cast<char>(v);
    return *this;
  }
  int peek() {
    if (Fault()) return -1;
    if (!good()) return -1;
    if (pos < len) return static_cast<int>(src[pos]);
    eofbit = true;
    return -1;
  }
  SpecIStream& seekg(std::streamoff off, std::ios_base::seekdir) {
    if (Fault()) return *this;
    eofbit = false;
    if (fail()) return *this;
    const std::size_t target = pos + static_cast<std::size_t>(off);
    if (target > len && !file_like) { failbit = true; return *this; }
    pos = target;
    return *this;
  }
  SpecIStream& ignore(std::streamsize n) {
    if (Fault()) return *this;
    if (!good()) { failbit = true; return *this; }
    const std::size_t want = static_cast<std::size_t>(n);
    const std::size_t avail = pos <= len ? len - pos : 0;
    if (want <= avail) { pos += want; }
    else { pos = len; eofbit = true; }
    return *this;
  }
  std::size_t consumed() const { return pos; }
};

struct SpecOStream {
  using char_type = char;
  std::uint8_t* dst;
  std::size_t cap, pos;
  bool badbit;
  std::size_t calls, bad_at;
  SpecOStream(std::uint8_t* b, std::size_t n, std::size_t bad_call) : dst(b), cap(n), pos(0), badbit(false), calls(0), bad_at(bad_call) {}
  bool bad() const { return badbit; }
  bool eof() const { return false; }
  bool fail() const { return badbit; }
  bool Fault() {
    const bool f = calls == bad_at;
    calls += 1;
    if (f) badbit = true;
    return f;
  }
  SpecOStream& put(char c) {
    if (Fault() || badbit) return *this;
    if (pos >= cap) { badbit = true; return *this; }   // device full: the write fails (badbit)
    dst[pos] = static_cast<std::uint8_t>(c);
    pos += 1;
    return *this;
  }
  SpecOStream& write(const char* s, std::streamsize n) {
    if (Fault() || badbit) return *this;
    const std::size_t want = static_cast<std::size_t>(n);
    if (want > cap - pos) { badbit = true; return *this; }
    for (std::size_t i = 0; i < want; i++) dst[pos + i] = static_cast<std::uint8_t>(s[i]);
    pos += want;
    return *this;
  }
  std::size_t produced() const { return pos; }
};
#else
// native adapters over the real library (no fault injection: bad_call is ignored)
struct SpecIStream {
  using char_type = char;
  std::stringstream ss;
  std::fstream fs;
  bool file_like;
  std::string path;
  SpecIStream(const std::uint8_t* b, std::size_t n, bool file, std::size_t) : file_like(file) {
    if (file_like) {
      char name[] = "/verif/.work/vt_stream_XXXXXX";
      int fd = mkstemp(name);
      path = name;
      if (fd >= 0) {
        FILE* f = fdopen(fd, "wb");
        if (n) fwrite(b, 1, n, f);
        fclose(f);
      }
      fs.open(path, std::ios::in | std::ios::binary);
    } else {
      ss.str(std::string(reinterpret_cast<const char*>(b), n));
    }
  }
  ~SpecIStream() { if (file_like) { fs.close(); std::remove(path.c_str()); } }
  std::istream& s() { return file_like ? static_cast<std::istream&>(fs) : static_cast<std::istream&>(ss); }
  bool eof() { return s().eof(); }
  bool fail() { return s().fail(); }
  bool bad() { return s().bad(); }
  std::size_t cons = 0;
  SpecIStream& read(char* p, std::streamsize n) { s().read(p, n); cons += static_cast<std::size_t>(s().gcount()); return *this; }
  using traits_type = std::char_traits<char>;
  using int_type = int;
  int get() { const int c = s().get(); cons += static_cast<std::size_t>(s().gcount()); return c; }
  SpecIStream& get(char& c) { s().get(c); cons += static_cast<std::size_t>(s().gcount()); return *this; }
  int peek() { return s().peek(); }
  SpecIStream& seekg(std::streamoff off, std::ios_base::seekdir d) {
    const bool was_ok = !s().fail();
    s().seekg(off, d);
    if (was_ok && !s().fail()) cons += static_cast<std::size_t>(off);
    return *this;
  }
  SpecIStream& ignore(std::streamsize n) { s().ignore(n); cons += static_cast<std::size_t>(s().gcount()); return *this; }
  std::size_t consumed() { return cons; }
};
struct SpecOStream {
  using char_type = char;
  std::stringstream ss;
  std::uint8_t* dst;
  std::size_t cap;
  SpecOStream(std::uint8_t* b, std::size_t n, std::size_t) : dst(b), cap(n) {}
  bool bad() { return ss.bad(); }
  bool eof() { return ss.eof(); }
  bool fail() { return ss.fail(); }
  SpecOStream& put(char c) { ss.put(c); return *this; }
  SpecOStream& write(const char* p, std::streamsize n) { ss.write(p, n); return *this; }
  std::size_t produced() {
    const std::string out = ss.str();
    for (std::size_t i = 0; i < out.size() && i < cap; i++) dst[i] = static_cast<std::uint8_t>(out[i]);
    return out.size();
  }
};
#endif

}  // namespace vt

#endif  // VERIF_SPEC_STREAM_MODEL_H_
