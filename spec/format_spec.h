// format_spec.h — the specification codec, written from /repo/docs/format.md only.
//
// An independent, schema-directed encoder and decoder: for every schema constructor
// (integer classes, bool, float, fixed arrays, BIN arrays of integral elements, pair /
// tuple, structure, optional, result, variant, logical buffer, value wrapper, table) a
// pure encoder into a byte vector and a decoder that says accept / reject, the decoded
// value, the number of bytes consumed and (for the first defect met) the error category.
// Prefix byte values come from "fmt_prefix.h", generated from the table in docs/format.md
// on every run (tools/gen_prefix.py).  Nothing here includes or calls a libnop *encoder*;
// only the value types (nop::Optional, ...) and nop::ErrorStatus are shared.
//
// Rules taken from the document:
//  * "For an integer type of a particular size, any encoding of equal or smaller range is
//    allowed; an encoding of a larger range is not allowed" (decode acceptance), and the
//    encoder uses the smallest class that holds the value (property C03).
//  * integers little-endian; signed two's complement.
//  * containers: prefix, UINT64-class length (bytes for BIN/STR, elements for ARY/MAP/STU).
#ifndef VERIF_SPEC_FORMAT_SPEC_H_
#define VERIF_SPEC_FORMAT_SPEC_H_

#include <array>
#include <cstddef>
#include <cstdint>
#include <cstring>
#include <tuple>
#include <utility>

#include <nop/status.h>

#include "fmt_prefix.h"
#include "vt.h"

namespace vt {
namespace fmt {

constexpr std::size_t kCap = 80;  // longest specification encoding any INST type needs

struct Out {
  std::uint8_t b[kCap];
  std::size_t n;
};
inline void init(Out& o) { o.n = 0; }
inline void put(Out& o, std::uint8_t x) {
  if (o.n < kCap) o.b[o.n] = x;
  o.n += 1;
}
// little-endian payload of `bytes` bytes (1, 2, 4 or 8)
inline void put_le(Out& o, std::uint64_t v, int bytes) {
  put(o, static_cast<std::uint8_t>(v));
  if (bytes >= 2) put(o, static_cast<std::uint8_t>(v >> 8));
  if (bytes >= 4) {
    put(o, static_cast<std::uint8_t>(v >> 16));
    put(o, static_cast<std::uint8_t>(v >> 24));
  }
  if (bytes >= 8) {
    put(o, static_cast<std::uint8_t>(v >> 32));
    put(o, static_cast<std::uint8_t>(v >> 40));
    put(o, static_cast<std::uint8_t>(v >> 48));
    put(o, static_cast<std::uint8_t>(v >> 56));
  }
}

// Smallest unsigned class that holds v.
inline void enc_uint(Out& o, std::uint64_t v) {
  if (v <= 0x7f) {
    put(o, static_cast<std::uint8_t>(v));
  } else if (v <= 0xff) {
    put(o, FMT_U8);
    put_le(o, v, 1);
  } else if (v <= 0xffff) {
    put(o, FMT_U16);
    put_le(o, v, 2);
  } else if (v <= 0xffffffffULL) {
    put(o, FMT_U32);
    put_le(o, v, 4);
  } else {
    put(o, FMT_U64);
    put_le(o, v, 8);
  }
}
// Smallest signed class that holds v.
inline void enc_int(Out& o, std::int64_t v) {
  const std::uint64_t u = static_cast<std::uint64_t>(v);
  if (v >= -64 && v <= 127) {
    put(o, static_cast<std::uint8_t>(u));
  } else if (v >= -128 && v <= 127) {
    put(o, FMT_I8);
    put_le(o, u, 1);
  } else if (v >= -32768 && v <= 32767) {
    put(o, FMT_I16);
    put_le(o, u, 2);
  } else if (v >= -2147483648LL && v <= 2147483647LL) {
    put(o, FMT_I32);
    put_le(o, u, 4);
  } else {
    put(o, FMT_I64);
    put_le(o, u, 8);
  }
}

struct In {
  const std::uint8_t* b;
  std::size_t n;
  std::size_t pos;
  int err;  // ErrorStatus of the first defect, 0 if none so far
};
inline void init(In& in, const std::uint8_t* b, std::size_t n) {
  in.b = b;
  in.n = n;
  in.pos = 0;
  in.err = 0;
}
inline bool fail(In& in, nop::ErrorStatus e) {
  if (in.err == 0) in.err = static_cast<int>(e);
  return false;
}
inline bool get(In& in, std::uint8_t* x) {
  if (in.pos >= in.n) return fail(in, nop::ErrorStatus::ReadLimitReached);
  *x = in.b[in.pos];
  in.pos += 1;
  return true;
}
inline bool get_le(In& in, int bytes, std::uint64_t* v) {
  if (static_cast<std::size_t>(bytes) > in.n - in.pos) return fail(in, nop::ErrorStatus::ReadLimitReached);
  std::uint64_t r = 0;
  r |= static_cast<std::uint64_t>(in.b[in.pos]);
  if (bytes >= 2) r |= static_cast<std::uint64_t>(in.b[in.pos + 1]) << 8;
  if (bytes >= 4) {
    r |= static_cast<std::uint64_t>(in.b[in.pos + 2]) << 16;
    r |= static_cast<std::uint64_t>(in.b[in.pos + 3]) << 24;
  }
  if (bytes >= 8) {
    r |= static_cast<std::uint64_t>(in.b[in.pos + 4]) << 32;
    r |= static_cast<std::uint64_t>(in.b[in.pos + 5]) << 40;
    r |= static_cast<std::uint64_t>(in.b[in.pos + 6]) << 48;
    r |= static_cast<std::uint64_t>(in.b[in.pos + 7]) << 56;
  }
  in.pos += static_cast<std::size_t>(bytes);
  *v = r;
  return true;
}

// UINT<8*maxbytes> class: POS and the unsigned classes no wider than maxbytes.
inline bool dec_uint(In& in, int maxbytes, std::uint64_t* v) {
  std::uint8_t p;
  if (!get(in, &p)) return false;
  if (p <= FMT_POS_MAX) {
    *v = p;
    return true;
  }
  int bytes = 0;
  if (p == FMT_U8) bytes = 1;
  else if (p == FMT_U16) bytes = 2;
  else if (p == FMT_U32) bytes = 4;
  else if (p == FMT_U64) bytes = 8;
  if (bytes == 0 || bytes > maxbytes) return fail(in, nop::ErrorStatus::UnexpectedEncodingType);
  return get_le(in, bytes, v);
}
// INT<8*maxbytes> class: POS, NEG and the signed classes no wider than maxbytes.
inline bool dec_int(In& in, int maxbytes, std::int64_t* v) {
  std::uint8_t p;
  if (!get(in, &p)) return false;
  if (p <= FMT_POS_MAX) {
    *v = p;
    return true;
  }
  if (p >= FMT_NEG_MIN) {
    *v = static_cast<std::int64_t>(p) - 256;
    return true;
  }
  int bytes = 0;
  if (p == FMT_I8) bytes = 1;
  else if (p == FMT_I16) bytes = 2;
  else if (p == FMT_I32) bytes = 4;
  else if (p == FMT_I64) bytes = 8;
  if (bytes == 0 || bytes > maxbytes) return fail(in, nop::ErrorStatus::UnexpectedEncodingType);
  std::uint64_t u;
  if (!get_le(in, bytes, &u)) return false;
  if (bytes == 1) *v = static_cast<std::int64_t>(u) - ((u & 0x80) ? 0x100LL : 0);
  else if (bytes == 2) *v = static_cast<std::int64_t>(u) - ((u & 0x8000) ? 0x10000LL : 0);
  else if (bytes == 4) *v = static_cast<std::int64_t>(u) - ((u & 0x80000000ULL) ? 0x100000000LL : 0);
  else *v = static_cast<std::int64_t>(u);
  return true;
}
inline bool expect_prefix(In& in, std::uint8_t want) {
  std::uint8_t p;
  if (!get(in, &p)) return false;
  if (p != want) return fail(in, nop::ErrorStatus::UnexpectedEncodingType);
  return true;
}

}  // namespace fmt

// ---------------------------------------------------------------------------------------
// Per-type schema: Fmt<T>::enc / dec, Gen<T>::make (an arbitrary value of T built through
// the public API from scalar nondets) and Gen<T>::eq (bit-identical for floating point).
template <typename T, typename Enable = void>
struct Fmt;
template <typename T, typename Enable = void>
struct Gen;

template <typename T>
struct IsUnsignedInt : std::integral_constant<bool, std::is_integral<T>::value && std::is_unsigned<T>::value && !std::is_same<T, bool>::value> {};
template <typename T>
struct IsSignedInt : std::integral_constant<bool, std::is_integral<T>::value && std::is_signed<T>::value && !std::is_same<T, char>::value> {};

template <>
struct Fmt<bool> {
  static void enc(fmt::Out& o, const bool& v) { fmt::put(o, v ? FMT_TRUE : FMT_FALSE); }
  static bool dec(fmt::In& in, bool* v) {
    std::uint8_t p;
    if (!fmt::get(in, &p)) return false;
    if (p != FMT_TRUE && p != FMT_FALSE) return fmt::fail(in, nop::ErrorStatus::UnexpectedEncodingType);
    *v = (p == FMT_TRUE);
    return true;
  }
};
// char: "Treating it as an unsigned 8-bit value" (UINT8 class)
template <>
struct Fmt<char> {
  static void enc(fmt::Out& o, const char& v) { fmt::enc_uint(o, static_cast<std::uint8_t>(v)); }
  static bool dec(fmt::In& in, char* v) {
    std::uint64_t u;
    if (!fmt::dec_uint(in, 1, &u)) return false;
    *v = static_cast<char>(static_cast<std::uint8_t>(u));
    return true;
  }
};
template <typename T>
struct Fmt<T, std::enable_if_t<IsUnsignedInt<T>::value && !std::is_same<T, char>::value>> {
  static void enc(fmt::Out& o, const T& v) { fmt::enc_uint(o, v); }
  static bool dec(fmt::In& in, T* v) {
    std::uint64_t u;
    if (!fmt::dec_uint(in, sizeof(T), &u)) return false;
    *v = static_cast<T>(u);
    return true;
  }
};
template <typename T>
struct Fmt<T, std::enable_if_t<IsSignedInt<T>::value>> {
  static void enc(fmt::Out& o, const T& v) { fmt::enc_int(o, v); }
  static bool dec(fmt::In& in, T* v) {
    std::int64_t s;
    if (!fmt::dec_int(in, sizeof(T), &s)) return false;
    *v = static_cast<T>(s);
    return true;
  }
};
template <>
struct Fmt<float> {
  static void enc(fmt::Out& o, const float& v) {
    fmt::put(o, FMT_F32);
    fmt::put_le(o, bits_of(v), 4);
  }
  static bool dec(fmt::In& in, float* v) {
    if (!fmt::expect_prefix(in, FMT_F32)) return false;
    std::uint64_t u;
    if (!fmt::get_le(in, 4, &u)) return false;
    const std::uint32_t b = static_cast<std::uint32_t>(u);
    std::memcpy(v, &b, 4);
    return true;
  }
};
template <>
struct Fmt<double> {
  static void enc(fmt::Out& o, const double& v) {
    fmt::put(o, FMT_F64);
    fmt::put_le(o, bits_of(v), 8);
  }
  static bool dec(fmt::In& in, double* v) {
    if (!fmt::expect_prefix(in, FMT_F64)) return false;
    std::uint64_t u;
    if (!fmt::get_le(in, 8, &u)) return false;
    std::memcpy(v, &u, 8);
    return true;
  }
};
// enums travel as their underlying integer type
template <typename T>
struct Fmt<T, std::enable_if_t<std::is_enum<T>::value>> {
  using U = std::underlying_type_t<T>;
  static void enc(fmt::Out& o, const T& v) {
    const U u = static_cast<U>(v);
    Fmt<U>::enc(o, u);
  }
  static bool dec(fmt::In& in, T* v) {
    U u;
    if (!Fmt<U>::dec(in, &u)) return false;
    *v = static_cast<T>(u);
    return true;
  }
};

// ------------------------------------------------------------------ generators / equality
template <typename T>
struct Gen<T, std::enable_if_t<std::is_arithmetic<T>::value && !std::is_floating_point<T>::value>> {
  static void make(T* v) { *v = nondet<T>(); }
  static bool eq(const T& a, const T& b) { return a == b; }
};
template <>
struct Gen<float> {
  static void make(float* v) { *v = nondet<float>(); }
  static bool eq(const float& a, const float& b) { return bits_of(a) == bits_of(b); }
};
template <>
struct Gen<double> {
  static void make(double* v) { *v = nondet<double>(); }
  static bool eq(const double& a, const double& b) { return bits_of(a) == bits_of(b); }
};
template <typename T>
struct Gen<T, std::enable_if_t<std::is_enum<T>::value>> {
  using U = std::underlying_type_t<T>;
  static void make(T* v) { *v = static_cast<T>(nondet<U>()); }
  static bool eq(const T& a, const T& b) { return a == b; }
};

}  // namespace vt


// =======================================================================================
// Composite schema constructors (fixed shape).  Appended section: containers per
// docs/format.md "Array Container", "Binary Container", "Structure", "Variant", "Error";
// Optional per the NIL row of the prefix table ("Nil / empty / none").
#include <nop/types/optional.h>
#include <nop/types/result.h>
#include <nop/types/variant.h>

namespace vt {
namespace fmt {
// prefix + UINT64-class count, encoder side
inline void enc_header(Out& o, std::uint8_t prefix, std::uint64_t count) {
  put(o, prefix);
  enc_uint(o, count);
}
// prefix + UINT64-class count that must equal `want`; `bad` is the category for a wrong count
inline bool dec_header_fixed(In& in, std::uint8_t prefix, std::uint64_t want, nop::ErrorStatus bad) {
  if (!expect_prefix(in, prefix)) return false;
  std::uint64_t n;
  if (!dec_uint(in, 8, &n)) return false;
  if (n != want) return fail(in, bad);
  return true;
}
template <typename T>
inline void put_raw(Out& o, const T& v) {  // direct little-endian binary representation
  unsigned char raw[sizeof(T)];
  std::memcpy(raw, &v, sizeof(T));
  for (std::size_t i = 0; i < sizeof(T); i++) put(o, raw[i]);
}
template <typename T>
inline bool get_raw(In& in, T* v) {
  if (sizeof(T) > in.n - in.pos) return fail(in, nop::ErrorStatus::ReadLimitReached);
  unsigned char raw[sizeof(T)];
  for (std::size_t i = 0; i < sizeof(T); i++) raw[i] = in.b[in.pos + i];
  std::memcpy(v, raw, sizeof(T));
  in.pos += sizeof(T);
  return true;
}
}  // namespace fmt

// std::array<T, N>: integral T -> BIN with byte length; otherwise ARY with element count
template <typename T, std::size_t N>
struct Fmt<std::array<T, N>, std::enable_if_t<std::is_integral<T>::value>> {
  using A = std::array<T, N>;
  static void enc(fmt::Out& o, const A& v) {
    fmt::enc_header(o, FMT_BIN, N * sizeof(T));
    for (std::size_t i = 0; i < N; i++) fmt::put_raw(o, v[i]);
  }
  static bool dec(fmt::In& in, A* v) {
    if (!fmt::dec_header_fixed(in, FMT_BIN, N * sizeof(T), nop::ErrorStatus::InvalidContainerLength)) return false;
    for (std::size_t i = 0; i < N; i++)
      if (!fmt::get_raw(in, &(*v)[i])) return false;
    return true;
  }
};
template <typename T, std::size_t N>
struct Fmt<std::array<T, N>, std::enable_if_t<!std::is_integral<T>::value>> {
  using A = std::array<T, N>;
  static void enc(fmt::Out& o, const A& v) {
    fmt::enc_header(o, FMT_ARY, N);
    for (std::size_t i = 0; i < N; i++) Fmt<T>::enc(o, v[i]);
  }
  static bool dec(fmt::In& in, A* v) {
    if (!fmt::dec_header_fixed(in, FMT_ARY, N, nop::ErrorStatus::InvalidContainerLength)) return false;
    for (std::size_t i = 0; i < N; i++)
      if (!Fmt<T>::dec(in, &(*v)[i])) return false;
    return true;
  }
};
template <typename T, std::size_t N>
struct Gen<std::array<T, N>> {
  using A = std::array<T, N>;
  static void make(A* v) {
    for (std::size_t i = 0; i < N; i++) Gen<T>::make(&(*v)[i]);
  }
  static bool eq(const A& a, const A& b) {
    bool r = true;
    for (std::size_t i = 0; i < N; i++) r = r && Gen<T>::eq(a[i], b[i]);
    return r;
  }
};

// std::pair / std::tuple: ARY with the element count, then each element in order
template <typename A, typename B>
struct Fmt<std::pair<A, B>> {
  using P = std::pair<A, B>;
  static void enc(fmt::Out& o, const P& v) {
    fmt::enc_header(o, FMT_ARY, 2);
    Fmt<A>::enc(o, v.first);
    Fmt<B>::enc(o, v.second);
  }
  static bool dec(fmt::In& in, P* v) {
    if (!fmt::dec_header_fixed(in, FMT_ARY, 2, nop::ErrorStatus::InvalidContainerLength)) return false;
    return Fmt<A>::dec(in, &v->first) && Fmt<B>::dec(in, &v->second);
  }
};
template <typename A, typename B>
struct Gen<std::pair<A, B>> {
  using P = std::pair<A, B>;
  static void make(P* v) {
    Gen<A>::make(&v->first);
    Gen<B>::make(&v->second);
  }
  static bool eq(const P& a, const P& b) { return Gen<A>::eq(a.first, b.first) && Gen<B>::eq(a.second, b.second); }
};
template <typename A, typename B, typename C>
struct Fmt<std::tuple<A, B, C>> {
  using P = std::tuple<A, B, C>;
  static void enc(fmt::Out& o, const P& v) {
    fmt::enc_header(o, FMT_ARY, 3);
    Fmt<A>::enc(o, std::get<0>(v));
    Fmt<B>::enc(o, std::get<1>(v));
    Fmt<C>::enc(o, std::get<2>(v));
  }
  static bool dec(fmt::In& in, P* v) {
    if (!fmt::dec_header_fixed(in, FMT_ARY, 3, nop::ErrorStatus::InvalidContainerLength)) return false;
    return Fmt<A>::dec(in, &std::get<0>(*v)) && Fmt<B>::dec(in, &std::get<1>(*v)) && Fmt<C>::dec(in, &std::get<2>(*v));
  }
};
template <typename A, typename B, typename C>
struct Gen<std::tuple<A, B, C>> {
  using P = std::tuple<A, B, C>;
  static void make(P* v) {
    Gen<A>::make(&std::get<0>(*v));
    Gen<B>::make(&std::get<1>(*v));
    Gen<C>::make(&std::get<2>(*v));
  }
  static bool eq(const P& a, const P& b) {
    return Gen<A>::eq(std::get<0>(a), std::get<0>(b)) && Gen<B>::eq(std::get<1>(a), std::get<1>(b)) && Gen<C>::eq(std::get<2>(a), std::get<2>(b));
  }
};

// Optional<T>: NIL when empty, otherwise the element
template <typename T>
struct Fmt<nop::Optional<T>> {
  using O = nop::Optional<T>;
  static void enc(fmt::Out& o, const O& v) {
    if (v.empty()) fmt::put(o, FMT_NIL);
    else Fmt<T>::enc(o, v.get());
  }
  static bool dec(fmt::In& in, O* v) {
    if (in.pos < in.n && in.b[in.pos] == FMT_NIL) {
      in.pos += 1;
      v->clear();
      return true;
    }
    T t;
    Gen<T>::make(&t);
    if (!Fmt<T>::dec(in, &t)) return false;
    *v = t;
    return true;
  }
};
template <typename T>
struct Gen<nop::Optional<T>> {
  using O = nop::Optional<T>;
  static void make(O* v) {
    if (nondet<bool>()) {
      T t;
      Gen<T>::make(&t);
      *v = t;
    } else {
      v->clear();
    }
  }
  static bool eq(const O& a, const O& b) {
    if (a.empty() || b.empty()) return a.empty() == b.empty();
    return Gen<T>::eq(a.get(), b.get());
  }
};

// Result<E, T>: the value, or ERR followed by the error enum; an ENUM of 0 (None) denotes
// the result that holds neither (what a default-constructed Result encodes as).
template <typename E, typename T>
struct Fmt<nop::Result<E, T>> {
  using R = nop::Result<E, T>;
  static void enc(fmt::Out& o, const R& v) {
    if (v.has_value()) {
      Fmt<T>::enc(o, v.get());
    } else {
      fmt::put(o, FMT_ERR);
      const E e = v.error();
      Fmt<E>::enc(o, e);
    }
  }
  static bool dec(fmt::In& in, R* v) {
    if (in.pos < in.n && in.b[in.pos] == FMT_ERR) {
      in.pos += 1;
      E e;
      if (!Fmt<E>::dec(in, &e)) return false;
      *v = e;
      return true;
    }
    T t;
    Gen<T>::make(&t);
    if (!Fmt<T>::dec(in, &t)) return false;
    *v = t;
    return true;
  }
};
template <typename E, typename T>
struct Gen<nop::Result<E, T>> {
  using R = nop::Result<E, T>;
  static void make(R* v) {
    const std::uint8_t k = nondet<std::uint8_t>();
    if (k == 0) {
      v->clear();
    } else if (k == 1) {
      E e;
      Gen<E>::make(&e);
      *v = e;
    } else {
      T t;
      Gen<T>::make(&t);
      *v = t;
    }
  }
  static bool eq(const R& a, const R& b) {
    if (a.has_value() != b.has_value()) return false;
    if (a.has_value()) return Gen<T>::eq(a.get(), b.get());
    return a.error() == b.error();
  }
};

// Variant<A, B>: VAR, the zero-based index (or -1) in class INT<8*IndexBytes>, the element (NIL when empty).
// docs/format.md labels the index INT64; include/nop/base/variant.h documents and implements INT32.
template <typename A, typename B, int IndexBytes>
struct VariantFmt {
  using V = nop::Variant<A, B>;
  static void enc(fmt::Out& o, const V& v) {
    fmt::put(o, FMT_VAR);
    fmt::enc_int(o, v.index());
    if (v.index() == 0) Fmt<A>::enc(o, *v.template get<A>());
    else if (v.index() == 1) Fmt<B>::enc(o, *v.template get<B>());
    else fmt::put(o, FMT_NIL);
  }
  static bool dec(fmt::In& in, V* v) {
    if (!fmt::expect_prefix(in, FMT_VAR)) return false;
    std::int64_t idx;
    if (!fmt::dec_int(in, IndexBytes, &idx)) return false;
    if (idx < -1 || idx > 1) return fmt::fail(in, nop::ErrorStatus::UnexpectedVariantType);
    if (idx == 0) {
      A a;
      Gen<A>::make(&a);
      if (!Fmt<A>::dec(in, &a)) return false;
      *v = a;
    } else if (idx == 1) {
      B b;
      Gen<B>::make(&b);
      if (!Fmt<B>::dec(in, &b)) return false;
      *v = b;
    } else {
      if (!fmt::expect_prefix(in, FMT_NIL)) return false;
      *v = nop::EmptyVariant{};
    }
    return true;
  }
};
template <typename A, typename B>
struct Fmt<nop::Variant<A, B>> : VariantFmt<A, B, 4> {};
template <typename A, typename B>
struct Gen<nop::Variant<A, B>> {
  using V = nop::Variant<A, B>;
  static void make(V* v) {
    const std::uint8_t k = nondet<std::uint8_t>();
    if (k == 0) {
      A a;
      Gen<A>::make(&a);
      *v = a;
    } else if (k == 1) {
      B b;
      Gen<B>::make(&b);
      *v = b;
    } else {
      *v = nop::EmptyVariant{};
    }
  }
  static bool eq(const V& a, const V& b) {
    if (a.index() != b.index()) return false;
    if (a.index() == 0) return Gen<A>::eq(*a.template get<A>(), *b.template get<A>());
    if (a.index() == 1) return Gen<B>::eq(*a.template get<B>(), *b.template get<B>());
    return true;
  }
};

}  // namespace vt

// =======================================================================================
// Table container (docs/format.md "Table Container"): TAB, HASH (UINT64), N (UINT64), then N
// entries ID (UINT64), SIZE (UINT64), SIZE bytes = value bytes + padding.  Helpers for the
// per-table schemas written out in units/table.cpp.
#ifndef VERIF_SPEC_FORMAT_SPEC_TABLE_
#define VERIF_SPEC_FORMAT_SPEC_TABLE_
namespace vt {
namespace fmt {
constexpr std::size_t kEntryCap = 24;  // longest entry value of any INST table
// encoder: one entry (nothing at all when the entry is empty); `extra` padding bytes of value 0
template <typename E>
inline void enc_entry(Out& o, std::uint64_t id, const E& entry, std::uint64_t extra) {
  if (entry.empty()) return;
  Out tmp;
  init(tmp);
  Fmt<typename std::decay<decltype(entry.get())>::type>::enc(tmp, entry.get());
  enc_uint(o, id);
  enc_uint(o, tmp.n + extra);
  for (std::size_t i = 0; i < kEntryCap; i++)
    if (i < tmp.n) put(o, tmp.b[i]);
  for (std::size_t i = 0; i < 4; i++)
    if (i < extra) put(o, 0);
}
// decoder: the SIZE-framed value of a recognised active entry (the id has been read)
template <typename T, typename E>
inline bool dec_entry(In& in, E* entry) {
  if (!entry->empty()) return fail(in, nop::ErrorStatus::DuplicateTableEntry);
  std::uint64_t size;
  if (!dec_uint(in, 8, &size)) return false;
  const std::uint64_t avail = in.n - in.pos;
  In sub;
  init(sub, in.b + in.pos, size < avail ? size : avail);
  T t;
  Gen<T>::make(&t);
  if (!Fmt<T>::dec(sub, &t)) {
    if (in.err == 0) in.err = sub.err;
    return false;
  }
  if (size > avail) return fail(in, nop::ErrorStatus::ReadLimitReached);  // padding bytes missing
  in.pos += size;
  // through Optional<T>, not `*entry = t`: when T is itself an Optional<U> the converting assignment
  // operator=(const Optional<U>&) would be selected and treat t as an optional *of* the entry's value
  static_cast<nop::Optional<T>&>(*entry) = nop::Optional<T>(t);
  return true;
}
// decoder: skip the SIZE-framed value of an unknown or deleted entry
inline bool skip_entry(In& in) {
  std::uint64_t size;
  if (!dec_uint(in, 8, &size)) return false;
  if (size > in.n - in.pos) return fail(in, nop::ErrorStatus::ReadLimitReached);
  in.pos += size;
  return true;
}
inline bool dec_table_header(In& in, std::uint64_t hash, std::uint64_t* count) {
  if (!expect_prefix(in, FMT_TAB)) return false;
  std::uint64_t h;
  if (!dec_uint(in, 8, &h)) return false;
  if (h != hash) return fail(in, nop::ErrorStatus::InvalidTableHash);
  return dec_uint(in, 8, count);
}
}  // namespace fmt
}  // namespace vt
#endif

// two-element tuple and C arrays (same wire format as std::array), used by the fungibility lemmas
namespace vt {
template <typename A, typename B>
struct Fmt<std::tuple<A, B>> {
  using P = std::tuple<A, B>;
  static void enc(fmt::Out& o, const P& v) {
    fmt::enc_header(o, FMT_ARY, 2);
    Fmt<A>::enc(o, std::get<0>(v));
    Fmt<B>::enc(o, std::get<1>(v));
  }
  static bool dec(fmt::In& in, P* v) {
    if (!fmt::dec_header_fixed(in, FMT_ARY, 2, nop::ErrorStatus::InvalidContainerLength)) return false;
    return Fmt<A>::dec(in, &std::get<0>(*v)) && Fmt<B>::dec(in, &std::get<1>(*v));
  }
};
template <typename A, typename B>
struct Gen<std::tuple<A, B>> {
  using P = std::tuple<A, B>;
  static void make(P* v) {
    Gen<A>::make(&std::get<0>(*v));
    Gen<B>::make(&std::get<1>(*v));
  }
  static bool eq(const P& a, const P& b) { return Gen<A>::eq(std::get<0>(a), std::get<0>(b)) && Gen<B>::eq(std::get<1>(a), std::get<1>(b)); }
};
template <typename T, std::size_t N>
struct Fmt<T[N]> {
  static void enc(fmt::Out& o, const T (&v)[N]) {
    if (std::is_integral<T>::value) {
      fmt::enc_header(o, FMT_BIN, N * sizeof(T));
      for (std::size_t i = 0; i < N; i++) fmt::put_raw(o, v[i]);
    } else {
      fmt::enc_header(o, FMT_ARY, N);
      for (std::size_t i = 0; i < N; i++) Fmt<T>::enc(o, v[i]);
    }
  }
  static bool dec(fmt::In& in, T (*v)[N]) {
    if (std::is_integral<T>::value) {
      if (!fmt::dec_header_fixed(in, FMT_BIN, N * sizeof(T), nop::ErrorStatus::InvalidContainerLength)) return false;
      for (std::size_t i = 0; i < N; i++)
        if (!fmt::get_raw(in, &(*v)[i])) return false;
    } else {
      if (!fmt::dec_header_fixed(in, FMT_ARY, N, nop::ErrorStatus::InvalidContainerLength)) return false;
      for (std::size_t i = 0; i < N; i++)
        if (!Fmt<T>::dec(in, &(*v)[i])) return false;
    }
    return true;
  }
};
template <typename T, std::size_t N>
struct Gen<T[N]> {
  static void make(T (*v)[N]) {
    for (std::size_t i = 0; i < N; i++) Gen<T>::make(&(*v)[i]);
  }
  static bool eq(const T (&a)[N], const T (&b)[N]) {
    bool r = true;
    for (std::size_t i = 0; i < N; i++) r = r && Gen<T>::eq(a[i], b[i]);
    return r;
  }
};
}  // namespace vt

#endif  // VERIF_SPEC_FORMAT_SPEC_H_
