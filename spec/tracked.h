// tracked.h — element types that account for their own lifetime (C11-C13, C15).
// Ghost counters: g_live (objects alive), g_ctor / g_dtor (totals), g_bad (lifetime
// errors: use, assignment or destruction of an object that is not alive — which is what a
// double destruction, a destruction of never-constructed storage, or an assignment into
// raw storage amounts to).  Every Tracked object carries an `alive` cookie.
#ifndef VERIF_SPEC_TRACKED_H_
#define VERIF_SPEC_TRACKED_H_

#include "vt.h"

namespace vt {

static int g_live = 0;
static int g_ctor = 0;
static int g_dtor = 0;
static int g_bad = 0;

constexpr int kAlive = 0x5a5a;
constexpr int kDead = 0x0dead;

template <int K>
struct Tracked {
  int value;
  int alive;

  Tracked() : value(0), alive(kAlive) { Born(); }
  Tracked(int v) : value(v), alive(kAlive) { Born(); }
  Tracked(const Tracked& o) : value(o.value), alive(kAlive) {
    if (o.alive != kAlive) g_bad += 1;
    Born();
  }
  Tracked(Tracked&& o) : value(o.value), alive(kAlive) {
    if (o.alive != kAlive) g_bad += 1;
    Born();
  }
  Tracked& operator=(const Tracked& o) {
    if (alive != kAlive || o.alive != kAlive) g_bad += 1;
    value = o.value;
    return *this;
  }
  Tracked& operator=(Tracked&& o) {
    if (alive != kAlive || o.alive != kAlive) g_bad += 1;
    value = o.value;
    return *this;
  }
  ~Tracked() {
    if (alive != kAlive) g_bad += 1;
    alive = kDead;
    g_live -= 1;
    g_dtor += 1;
  }
  bool operator==(const Tracked& o) const { return value == o.value; }
  bool operator!=(const Tracked& o) const { return value != o.value; }

 private:
  static void Born() {
    g_live += 1;
    g_ctor += 1;
  }
};

inline void ghost_reset() {
  g_live = 0;
  g_ctor = 0;
  g_dtor = 0;
  g_bad = 0;
}

}  // namespace vt

#endif  // VERIF_SPEC_TRACKED_H_
