// tracked.h — element types that account for their own lifetime (C11-C13, C15).
// Ghost counters: g_live (objects alive), g_ctor / g_dtor (totals), g_bad (lifetime
// errors: use, assignment or destruction of an object that is not alive — which is what a
// double destruction, a destruction of never-constructed storage, or an assignment into
// raw storage amounts to).  Every Tracked object carries an `alive` cookie.
#ifndef VERIF_SPEC_TRACKED_H_
#define VERIF_SPEC_TRACKED_H_

#include "vt.h"

namespace vt {

static int g_live = 0;
static int g_ctor = 0;
static int g_dtor = 0;
static int g_bad = 0;
// Throw-point watch (exceptions are not representable in the lowered code): while g_watch_obj is set, every Tracked
// constructor that runs INSIDE that object's storage samples *g_watch_index; g_ctor_while_indexed counts the
// constructions that started while the watched container still named an alternative.  A constructor that throws
// leaves the container exactly in the state it had when the constructor was entered, so "index == -1 at every
// element construction" is what makes a throwing element constructor leave a valid (empty) container.
static const void* g_watch_obj = nullptr;
static unsigned long g_watch_size = 0;
static const int* g_watch_index = nullptr;
static int g_ctor_while_indexed = 0;

constexpr int kAlive = 0x5a5a;
constexpr int kDead = 0x0dead;

template <int K>
struct Tracked {
  int value;
  int alive;

  Tracked() : value(0), alive(kAlive) { Born(this); }
  Tracked(int v) : value(v), alive(kAlive) { Born(this); }
  Tracked(const Tracked& o) : value(o.value), alive(kAlive) {
    if (o.alive != kAlive) g_bad += 1;
    Born(this);
  }
  Tracked(Tracked&& o) : value(o.value), alive(kAlive) {
    if (o.alive != kAlive) g_bad += 1;
    Born(this);
  }
  Tracked& operator=(const Tracked& o) {
    if (alive != kAlive || o.alive != kAlive) g_bad += 1;
    value = o.value;
    return *this;
  }
  Tracked& operator=(Tracked&& o) {
    if (alive != kAlive || o.alive != kAlive) g_bad += 1;
    value = o.value;
    return *this;
  }
  ~Tracked() {
    if (alive != kAlive) g_bad += 1;
    alive = kDead;
    g_live -= 1;
    g_dtor += 1;
  }
  bool operator==(const Tracked& o) const { return value == o.value; }
  bool operator!=(const Tracked& o) const { return value != o.value; }

 private:
  static void Born(const void* self) {
    g_live += 1;
    g_ctor += 1;
    if (g_watch_obj != nullptr && vt_within(self, g_watch_obj, g_watch_size) && *g_watch_index != -1) g_ctor_while_indexed += 1;
  }
};

inline void ghost_reset() {
  g_live = 0;
  g_ctor = 0;
  g_dtor = 0;
  g_bad = 0;
  g_watch_obj = nullptr;
  g_watch_index = nullptr;
  g_watch_size = 0;
  g_ctor_while_indexed = 0;
}

}  // namespace vt

#endif  // VERIF_SPEC_TRACKED_H_
