/* siphash_ref.h — SipHash-2-4 reference, written from the SipHash paper's reference C
 * listing (Aumasson & Bernstein, siphash24.c), in the common subset of C and C++ so that
 * the same text serves (a) as ghost code spliced next to the lowered SipHash::Compute
 * (units/sip.spec), (b) as the oracle of the C++ lemma harnesses (units/sip.cpp).
 * tools/check_siphash_ref.py validates it on every run against the 64 official test
 * vectors parsed out of /repo/test/sip_hash_tests.cpp. */
#ifndef VT_SIPHASH_REF_H
#define VT_SIPHASH_REF_H
#include <stddef.h>
#include <stdint.h>

typedef struct vt_sip_state { uint64_t v0, v1, v2, v3; } vt_sip_state;

#define VT_ROTL(x, b) (uint64_t)(((x) << (b)) | ((x) >> (64 - (b))))

#ifdef VT_SIP_UF
/* Abstraction used by the Compute jobs only: SIPROUND as four uninterpreted functions.
 * Sound for proving "Compute == reference" because SipHash::Round is separately proved
 * equal to the concrete vt_sipround below (job c18_round_contract, same contract text), so
 * both sides apply the *same* function; equality for every interpretation of it implies
 * equality for the real one. */
uint64_t __CPROVER_uninterpreted_sr0(uint64_t, uint64_t, uint64_t, uint64_t);
uint64_t __CPROVER_uninterpreted_sr1(uint64_t, uint64_t, uint64_t, uint64_t);
uint64_t __CPROVER_uninterpreted_sr2(uint64_t, uint64_t, uint64_t, uint64_t);
uint64_t __CPROVER_uninterpreted_sr3(uint64_t, uint64_t, uint64_t, uint64_t);
static inline vt_sip_state vt_sipround(vt_sip_state s) {
  vt_sip_state r;
  r.v0 = __CPROVER_uninterpreted_sr0(s.v0, s.v1, s.v2, s.v3);
  r.v1 = __CPROVER_uninterpreted_sr1(s.v0, s.v1, s.v2, s.v3);
  r.v2 = __CPROVER_uninterpreted_sr2(s.v0, s.v1, s.v2, s.v3);
  r.v3 = __CPROVER_uninterpreted_sr3(s.v0, s.v1, s.v2, s.v3);
  return r;
}
#else
static inline vt_sip_state vt_sipround(vt_sip_state s) {
  s.v0 += s.v1; s.v1 = VT_ROTL(s.v1, 13); s.v1 ^= s.v0; s.v0 = VT_ROTL(s.v0, 32);
  s.v2 += s.v3; s.v3 = VT_ROTL(s.v3, 16); s.v3 ^= s.v2;
  s.v0 += s.v3; s.v3 = VT_ROTL(s.v3, 21); s.v3 ^= s.v0;
  s.v2 += s.v1; s.v1 = VT_ROTL(s.v1, 17); s.v1 ^= s.v2; s.v2 = VT_ROTL(s.v2, 32);
  return s;
}

#endif
static inline vt_sip_state vt_sr(uint64_t a, uint64_t b, uint64_t c, uint64_t d) {
  vt_sip_state s;
  s.v0 = a; s.v1 = b; s.v2 = c; s.v3 = d;
  return vt_sipround(s);
}

static inline vt_sip_state vt_sip_init(uint64_t k0, uint64_t k1) {
  vt_sip_state s;
  s.v0 = 0x736f6d6570736575ULL ^ k0;
  s.v1 = 0x646f72616e646f6dULL ^ k1;
  s.v2 = 0x6c7967656e657261ULL ^ k0;
  s.v3 = 0x7465646279746573ULL ^ k1;
  return s;
}

static inline uint64_t vt_u8to64_le(const unsigned char* p) {
  return ((uint64_t)p[0]) | ((uint64_t)p[1] << 8) | ((uint64_t)p[2] << 16) | ((uint64_t)p[3] << 24) |
         ((uint64_t)p[4] << 32) | ((uint64_t)p[5] << 40) | ((uint64_t)p[6] << 48) | ((uint64_t)p[7] << 56);
}

/* compression of one 8-byte message block */
static inline vt_sip_state vt_sip_block(vt_sip_state s, uint64_t m) {
  s.v3 ^= m;
  s = vt_sipround(s);
  s = vt_sipround(s);
  s.v0 ^= m;
  return s;
}

/* last block (the `left` = n mod 8 trailing bytes and the length byte) + finalisation */
static inline uint64_t vt_sip_final(vt_sip_state s, const unsigned char* tail, size_t left, size_t n) {
  uint64_t b = ((uint64_t)n) << 56;
  if (left > 6) b |= ((uint64_t)tail[6]) << 48;
  if (left > 5) b |= ((uint64_t)tail[5]) << 40;
  if (left > 4) b |= ((uint64_t)tail[4]) << 32;
  if (left > 3) b |= ((uint64_t)tail[3]) << 24;
  if (left > 2) b |= ((uint64_t)tail[2]) << 16;
  if (left > 1) b |= ((uint64_t)tail[1]) << 8;
  if (left > 0) b |= ((uint64_t)tail[0]);
  s.v3 ^= b;
  s = vt_sipround(s);
  s = vt_sipround(s);
  s.v0 ^= b;
  s.v2 ^= 0xff;
  s = vt_sipround(s);
  s = vt_sipround(s);
  s = vt_sipround(s);
  s = vt_sipround(s);
  return s.v0 ^ s.v1 ^ s.v2 ^ s.v3;
}

static inline uint64_t vt_siphash24(const unsigned char* in, size_t n, uint64_t k0, uint64_t k1) {
  vt_sip_state s = vt_sip_init(k0, k1);
  const size_t left = n & 7;
  const size_t end = n - left;
  size_t off;
  for (off = 0; off < end; off += 8) s = vt_sip_block(s, vt_u8to64_le(in + off));
  return vt_sip_final(s, in + end, left, n);
}
#endif
